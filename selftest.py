#!/venv/bin/python
"""Mutation self-test: applies each property-breaking change of mutants/catalogue.json (or
a seeded/<id>/patch.diff) to a scratch copy of the repository's package, runs the quick
check with --repo on it, and expects exit 1.  The copy is deleted afterwards.
Usage: selftest.py [--only NAME_SUBSTR] [--prop C01] [--tier quick] [--seeded]"""
import argparse
import json
import os
import shutil
import subprocess
import sys
import tempfile

ROOT = os.path.dirname(os.path.abspath(__file__))


def make_copy():
  d = tempfile.mkdtemp(prefix="atsim-mut-")
  shutil.copytree("/repo/atsim", os.path.join(d, "atsim"), ignore=shutil.ignore_patterns("__pycache__"))
  return d


def apply_edit(tree, m):
  for ed in m["edits"]:
    p = os.path.join(tree, ed["file"])
    s = open(p).read()
    if s.count(ed["old"]) < 1:
      raise RuntimeError("mutant %s: pattern not found in %s" % (m["name"], ed["file"]))
    s = s.replace(ed["old"], ed["new"], ed.get("count", 1))
    open(p, "w").write(s)


def run(check, tree, tier, seed=0):
  r = subprocess.run([os.path.join(ROOT, "check"), check, "--repo", tree, "--tier", tier, "--seed", str(seed)],
                     capture_output=True, text=True, cwd=ROOT)
  return r.returncode, r.stdout


def main():
  ap = argparse.ArgumentParser()
  ap.add_argument("--only")
  ap.add_argument("--prop")
  ap.add_argument("--tier", default="quick")
  ap.add_argument("--seeded", action="store_true")
  ap.add_argument("--dry", action="store_true", help="only check that every mutant still applies")
  ap.add_argument("--all-checks", action="store_true", help="run every registered check against each mutant")
  args = ap.parse_args()
  muts = []
  if args.seeded:
    sd = os.path.join(ROOT, "seeded")
    for name in sorted(os.listdir(sd)):
      meta = os.path.join(sd, name, "meta.json")
      if os.path.exists(meta):
        mm = json.load(open(meta))
        if mm.get("superseded"):
          print("MUTANT %-40s SUPERSEDED %s" % ("seeded/" + name, mm["superseded"][:120]))
          continue
        muts.append({"name": "seeded/" + name, "property": mm.get("checks") or mm["property"], "patch": os.path.join(sd, name, "patch.diff")})
  else:
    muts = json.load(open(os.path.join(ROOT, "mutants", "catalogue.json")))["mutants"]
  results = []
  for m in muts:
    if args.only and args.only not in m["name"]:
      continue
    if args.prop and args.prop not in m["property"]:
      continue
    tree = make_copy()
    try:
      if "revert_commit" in m:
        diff = subprocess.run(["git", "-C", "/repo", "show", "--format=", m["revert_commit"]], capture_output=True, text=True).stdout
        r = subprocess.run(["patch", "-R", "-p1", "-d", tree], input=diff, capture_output=True, text=True)
        if r.returncode != 0:
          print("MUTANT %-40s revert failed: %s" % (m["name"], r.stdout[-300:]))
          continue
      elif "patch" in m:
        r = subprocess.run(["patch", "-p1", "-d", tree, "-i", m["patch"]], capture_output=True, text=True)
        if r.returncode != 0:
          print("MUTANT %-40s patch failed: %s" % (m["name"], r.stdout[-300:]))
          continue
      else:
        try:
          apply_edit(tree, m)
        except RuntimeError as e:
          print("MUTANT %-44s STALE   %s" % (m["name"], e))
          results.append(False)
          continue
      if args.dry:
        print("MUTANT %-44s applies" % m["name"])
        continue
      props = m["property"] if isinstance(m["property"], list) else [m["property"]]
      caught = []
      for pr in props:
        rc, out = run(pr, tree, args.tier)
        kinds = sorted(set(l.split(":")[0].strip("# ").strip() for l in out.split("\n") if l.startswith("  # ")))
        caught.append((pr, rc, kinds))
      ok = any(rc == 1 and kinds for _, rc, kinds in caught)
      print("MUTANT %-44s %s  %s" % (m["name"], "CAUGHT" if ok else "MISSED", caught))
      results.append(ok)
    finally:
      shutil.rmtree(tree, ignore_errors=True)
  print("caught %d of %d" % (sum(results), len(results)))
  return 0 if all(results) else 1


if __name__ == "__main__":
  sys.exit(main())
