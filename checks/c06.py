"""C06 - built-in forms evaluate their documented formula through all four routes (DESIGN.md section 4, C06)."""
import io
import random

import mpmath as mp

import emit
import monitors
import oracle
import readers
import refmodel as R
import routes
import spec
from harness import exc_sig
from spec import fnum

PROPERTY_ID = "C06"
LEVEL = "exploration"
RULE = ("per built-in form (15 forms incl. buck4 and polynomial orders 0-24): seeded parameter vectors inside the form's domain, pairwise "
        "distinct so that a permutation of arguments changes the value, including zeros and negatives, integer and fractional exponents; "
        "12 separations in (0, 30]; each vector is evaluated through potentialfunctions.f(r,*p), potentialforms.f(*p)(r), "
        "'as.NAME p...' in a [Pair] entry and g(r,p...) = as.NAME(r,p...) in [Potential-Form] (all but buck4), plus the energy column "
        "of the LAMMPS table written from that file. Non-trivial: parameter vector with >= 2 distinct non-zero parameters (or a "
        "one-parameter form with a non-zero parameter) and a non-zero reference value; distinct = canonical JSON of (form, 8 parameter vectors, separations).")
ASSUMPTIONS = ["closed forms transcribed from docs/reference/potential_forms.rst; ZBL and Tang-Toennies constants as the module documents them "
               "(the rst's 5-digit ZBL set must agree within 3%)", "tolerance 1e-9*local magnitude + 1e-13*sum|terms| (double rounding, cancellation)"]
ANCHORS = ["potentialforms.py:_FunctionFactory.__call__", "_util.py:_rpartial.__call__", "_potential_form_registry.py:Potential_Form_Registry._register_standard",
           "_python_potential_function.py:_Python_Potential_Function.__call__", "_cexprtk_potential_function.py:_Cexptrk_Potential_Function.__call__",
           "_potential_form.py:_Check_Call.__call__"]
MIN_NONTRIVIAL = {"quick": 100, "thorough": 2000}
MIN_COUNTERS = {"values_compared": 5000, "contract_functionfactory": 200}
TECHNIQUE = "runtime monitoring: independent mpmath closed forms vs the callable's return value through four access routes; icontract postcondition on _FunctionFactory.__call__"
LEVEL_TEXT = ("Exploration: every built-in form is driven with seeded parameter vectors through all four access routes of the real code; each "
              "returned value (and the energy column of a table built from the same file) is compared with an independent 40-digit "
              "evaluation of the documented formula, and the routes must agree with each other; an icontract postcondition on the "
              "parameter-binding factory checks result(r) == f(r, *args) on every factory call made during the run.")
LEVEL_NOTE = "Trusted: my transcription of the documented formulas, mpmath."
DESIGN_REF = "DESIGN.md section 4, C06"

FORMS = ["buck", "bornmayer", "coul", "constant", "exponential", "hbnd", "lj", "morse", "polynomial", "sqrt", "tang_toennies",
         "zbl", "zero", "exp_spline", "buck4"]
NVEC = 8
# parameters that multiply the whole term they belong to
AMPLITUDES = {"buck": [0, 2], "bornmayer": [0], "coul": [0], "constant": [0], "exponential": [0], "hbnd": [0, 1], "lj": [0],
              "morse": [2], "sqrt": [0], "tang_toennies": [0, 2, 3, 4]}


def distinct(rng, name):
  for _ in range(50):
    if name == "buck4":
      rd = spec.rfloat(rng, 0.8, 1.6, 2)
      rm = round(rd + spec.rfloat(rng, 0.3, 0.8, 2), 3)
      ra = round(rm + spec.rfloat(rng, 0.3, 0.9, 2), 3)
      return [spec.rfloat(rng, 200.0, 5000.0), spec.rfloat(rng, 0.15, 0.45), spec.rfloat(rng, 1.0, 80.0), rd, rm, ra]
    p = spec.gen_form_params(rng, name, rmax=1.0)
    if name == "polynomial":
      return p
    nz = [v for v in p if v != 0]
    if len(set(p)) == len(p) or rng.random() < 0.15:
      return p
  return p


def gen_cases(rng, tier):
  per_form = 12 if tier == "quick" else 200
  cases = []
  for name in FORMS:
    for k in range(per_form):
      vecs = [distinct(rng, name) for _ in range(NVEC)]
      if name == "polynomial":
        vecs = [[round(rng.uniform(-2, 2), 4) for _ in range(order + 1)] for order in rng.sample(range(0, 9), min(NVEC, 9))]
        if k % 4 == 3:
          # "polynomial of any order": orders 9..24 as well (fixed-size tables of exponents, unrolled loops)
          vecs = [[round(rng.uniform(-2, 2) / (1 + j), 6) for j in range(order + 1)] for order in rng.sample(range(9, 25), min(NVEC, 16))]
      if k == 0 and name in ("buck", "hbnd", "coul", "exponential", "morse", "lj"):
        z = list(vecs[0])
        z[rng.randrange(len(z))] = 0.0
        if name not in ("buck",) or z[1] != 0.0:
          vecs[0] = z
      if k == 1 and name not in ("zero", "polynomial"):
        # one-parameter-at-a-time: every vector differs from the first in exactly one position, so a result
        # remembered for "the same parameters" under an incomplete key would be returned for the wrong vector
        base = list(vecs[0])
        vecs = [base]
        for pos in range(len(base)):
          v2 = list(base)
          if name == "buck4":
            v2[pos] = round(base[pos] * (1.07 if pos < 3 else 1.0) + (0.04 if pos >= 3 else 0.0), 4)
          elif name == "zbl":
            v2[pos] = base[pos] + 1
          else:
            v2[pos] = round(base[pos] * 1.25 + (0.5 if base[pos] == 0 else 0.0), 6)
          vecs.append(v2)
        vecs = (vecs * 2)[:max(NVEC, len(vecs))]
      extreme = None
      if k == 2 and name in AMPLITUDES:
        # extreme magnitudes: every amplitude parameter scaled by the same power of ten (a whole potential of order 1e-30
        # or 1e+30 is legitimate - unit conversions do this), so a threshold such as "|c| <= eps is zero" shows up
        vecs = []
        for e in rng.sample([-30, -24, -20, -17, -16, -13, 12, 18, 30], NVEC):
          v = list(distinct(rng, name))
          for pos in AMPLITUDES[name]:
            v[pos] = (v[pos] * 10.0 ** e)
          vecs.append(v)
        extreme = "all_amplitudes"
      if k == 2 and name == "polynomial":
        vecs = []
        for order in rng.sample(range(1, 9), NVEC):
          v = [round(rng.uniform(-2, 2), 4) for _ in range(order + 1)]
          # one coefficient far below machine epsilon relative to the others: at r = 30 its term still matters
          v[-1] = rng.choice([1e-16, 2e-16, -1.5e-16, 3e-17, -1e-15, 1e-14, 5e-13])
          if order >= 3 and rng.random() < 0.5:
            v[rng.randrange(1, order)] = 0.0
          vecs.append(v)
        extreme = "tiny_high_order_coefficient"
      if k == 3 and name == "polynomial":
        vecs = []
        for e in rng.sample([-30, -24, -20, -17, -16, -13, 12, 18, 30], NVEC):
          vecs.append([(round(rng.uniform(-2, 2), 5) * 10.0 ** e) for _ in range(rng.randint(1, 6))])
        extreme = "all_amplitudes"
      if k == 4 and (name in AMPLITUDES or name == "polynomial"):
        # parameter vectors that differ only by -1 versus -2 in one position: hash(-1) == hash(-2) in CPython, so
        # anything remembered under hash(parameters) would serve the wrong vector (both as floats and as integers)
        base = list(distinct(rng, name)) if name != "polynomial" else [round(rng.uniform(-2, 2), 4) for _ in range(4)]
        vecs = []
        for pos in (AMPLITUDES.get(name) or range(len(base))):
          for val in (-1.0, -2.0, -1, -2):
            v2 = list(base)
            v2[pos] = val
            vecs.append(v2)
        vecs = vecs[:16]
        extreme = "hash_colliding_parameters"
      if k == 5 and name not in ("zero", "zbl"):
        # near-duplicates: vectors that agree to six or seven significant figures and differ after that (1234567 /
        # 1234568; 27.12346 / 27.12349): anything remembered under a rounded or formatted key would mix them up
        base = [float("%.9g" % (v * 1.2345678)) if v else v for v in (distinct(rng, name) if name != "polynomial" else [round(rng.uniform(-2, 2), 4) for _ in range(3)])]
        if name == "buck4":
          base = list(distinct(rng, name))
        vecs = [base]
        for pos in range(len(base)):
          if base[pos] == 0:
            continue
          v2 = list(base)
          v2[pos] = float("%.12g" % (base[pos] * (1 + 4e-7)))
          vecs.append(v2)
        vecs = (vecs * 2)[:max(NVEC, len(vecs))]
        extreme = "near_duplicate_parameters"
      rs = sorted(set([round(rng.uniform(0.05, 30.0), rng.choice([2, 3, 5])) for _ in range(10)] + [30.0, rng.choice([0.01, 0.5, 1.0])]))
      if name == "zbl":
        rs = [r for r in rs if r <= 30.0]
      cases.append({"form": name, "vecs": vecs, "rs": rs, "extreme": extreme})
  if tier in ["thorough"]:
    cases.append({"kind": "suite"})   # the repository's own tests with this check's contracts armed
  return cases


_contracts = None


def setup_worker():
  global _contracts
  from atsim.potentials import potentialforms
  _contracts = monitors.Contracts()

  def cond(args, kwargs, result):
    self = args[0]
    p = args[1:]
    for r in (0.7, 1.9, 4.3):
      try:
        want = self._func(r, *p)
      except Exception:
        continue
      got = result(r)
      if not (got == want or (got != got and want != want)):
        return False, "_FunctionFactory(%r)%r(%r) = %r but f(r,*args) = %r" % (self._func, p, r, got, want)
    return True, ""
  _contracts.ensure(potentialforms._FunctionFactory, "__call__", cond, "functionfactory")


def run_case(case, ctx):
  if case.get("kind") == "suite":
    import suite_contracts
    ctx.cls("kind:suite_with_contracts")
    return suite_contracts.run_suite(ctx, 'c06', ['functionfactory'])
  name = case["form"]
  vecs = case["vecs"]
  rs = case["rs"]
  ctx.cls("form:" + name)
  if case.get("extreme"):
    ctx.cls("extreme_magnitudes:" + case["extreme"])
  from atsim.potentials import potentialfunctions as pfn
  from atsim.potentials import potentialforms as pfm
  M = R.Model()
  before = _contracts.counts.get("functionfactory", 0) if _contracts else 0
  nf0 = len(_contracts.failures) if _contracts else 0

  # ---- build the potable file holding route 3 ('as.NAME p...') and route 4 (custom wrapper) entries
  pair_lines, form_lines = [], []
  has_r4 = name != "buck4"
  for i, p in enumerate(vecs):
    ptxt = " ".join(fnum(v) for v in p)
    pair_lines.append("A%d-X : %s%s" % (i, "as." + name, (" " + ptxt) if p else ""))
    if has_r4:
      pn = ["p%d" % k for k in range(len(p))]
      form_lines.append("g%d(%s) = as.%s(%s)" % (i, ", ".join(["r"] + pn), name, ", ".join(["r"] + pn)))
      pair_lines.append("B%d-X : g%d%s" % (i, i, (" " + ptxt) if p else ""))
  cutoff = 2.0  # the table part stays at short range (zbl.deriv overflows at large r*Z^0.23, see C07)
  text = "[Tabulation]\ntarget : LAMMPS\nnr : 7\ncutoff : %s\n\n[Pair]\n%s\n" % (fnum(cutoff), "\n".join(pair_lines))
  if form_lines:
    text += "\n[Potential-Form]\n%s\n" % "\n".join(form_lines)
  try:
    tab = routes.read_config(text)
    pots = {"%s-%s" % (p.speciesA, p.speciesB): p for p in tab.potentials}
    table_text = routes.write_tab(tab)
    secs = {s["keyword"]: s for s in readers.read_lammps_table(table_text)}
  except Exception as e:
    et, fn = exc_sig(e)
    ctx.violation("exception", "potable routes failed for %s: %s: %s" % (name, et, e), what="exception", exc=et, func=fn, form=name)
    return

  for i, p in enumerate(vecs):
    node = {"k": "buck4", "p": p} if name == "buck4" else {"k": "form", "name": name, "p": p}
    nzp = [v for v in p if v != 0]
    any_nz = False
    for r in rs:
      rr = R.F(r)
      try:
        ref = M.value(node, rr)
        mag = M.mag(node, rr)
        sc = R.scale(lambda x: M.value(node, x, rr), rr)
      except (R.RefDomainError, ZeroDivisionError, ValueError, OverflowError):
        ctx.count("out_of_domain_points")
        continue
      if abs(ref) > mp.mpf("1e200"):
        continue
      if ref != 0:
        any_nz = True
      got = {}
      try:
        if name != "buck4":
          got["function"] = getattr(pfn, name)(r, *p)
        got["factory"] = getattr(pfm, name)(*p)(r)
        got["as_entry"] = pots["A%d-X" % i].energy(r)
        if has_r4:
          got["custom_formula"] = pots["B%d-X" % i].energy(r)
      except Exception as e:
        et, fn = exc_sig(e)
        ctx.violation("exception", "%s%r at r=%r: %s: %s" % (name, p, r, et, e), what="exception", exc=et, func=fn, form=name)
        continue
      for route, v in got.items():
        ok, diff, tol = R.close(v, ref, sc=sc, mag=mag)
        ctx.count("values_compared")
        ctx.cls("route:" + route)
        if not ok:
          ctx.violation("value", "%s%r at r=%r via %s: got %r, documented formula gives %s (|diff|=%.3g tol=%.3g)" % (
            name, p, r, route, v, mp.nstr(ref, 17), diff, tol), what="value", form=name, route=route)
      vals = list(got.values())
      for a in vals[1:]:
        if not R.close(a, vals[0], sc=sc, rel=1e-12, mag=mag)[0]:
          ctx.violation("routes_disagree", "%s%r at r=%r: %r" % (name, p, r, got), what="routes_disagree", form=name)
          break
      if name == "zbl":
        alt = sum(R.form_terms("zbl_rst", p, rr))
        if abs(alt - ref) > mp.mpf("0.03") * abs(ref):
          ctx.violation("zbl_rst_variant", "module and rst constant sets differ by more than 3%% at r=%r" % r, what="zbl_rst_variant")
    # energy column of the table (rows at i*cutoff/6, i = 1..6)
    for key in ("A%d-X" % i,) + (("B%d-X" % i,) if has_r4 else ()):
      sec = secs.get(key)
      if sec is None:
        ctx.violation("table_block", "no table block %s" % key, what="table_block")
        continue
      for row in sec["rows"]:
        rr = R.F(float(cutoff)) * int(row[0]) / 6
        try:
          ref = M.value(spec.wrap_potable(node), rr)
          if abs(ref) > mp.mpf("1e150"):
            continue
          oracle.check_token(ctx, "table_energy", row[2], ref, R.scale(lambda x: M.value(node, x, rr), rr), mag=M.mag(node, rr),
                             where="%s%r block %s row %s" % (name, p, key, row[0]))
        except (R.RefDomainError, ZeroDivisionError, ValueError, OverflowError):
          pass
    ctx.nontrivial(any_nz and (len(set(nzp)) >= 2 or (len(p) <= 1) or name == "polynomial"))
  # ---- the same vectors again, separation by separation (every vector at one r, then the next r): what a form keeps
  # from its previous call (powers of r, a last result) must not leak into the call for another parameter vector
  if name != "buck4":
    order = sorted(range(len(vecs)), key=lambda i_: (len(vecs[i_]), i_))
    facs = [getattr(pfm, name)(*vecs[i_]) for i_ in order]
    for r in rs[:6]:
      rr = R.F(r)
      for i_, fac in zip(order, facs):
        p = vecs[i_]
        node = {"k": "form", "name": name, "p": p}
        try:
          ref = M.value(node, rr)
          mag = M.mag(node, rr)
          sc = R.scale(lambda x: M.value(node, x, rr), rr)
          if abs(ref) > mp.mpf("1e200"):
            continue
          got2 = (getattr(pfn, name)(r, *p), fac(r))
        except (R.RefDomainError, ZeroDivisionError, ValueError, OverflowError):
          continue
        for v in got2:
          ctx.count("values_compared")
          ok, diff, tol = R.close(v, ref, sc=sc, mag=mag)
          if not ok:
            ctx.violation("value", "%s%r at r=%r evaluated right after another parameter vector at the same r: got %r, documented formula gives %s" % (
              name, p, r, v, mp.nstr(ref, 17)), what="value", form=name, route="same_r_sequence")
            break
    ctx.cls("same_separation_sequence")
  if _contracts:
    ctx.count("contract_functionfactory", _contracts.counts.get("functionfactory", 0) - before)
    for cname, msg, _ in _contracts.failures[nf0:]:
      ctx.violation("contract", "%s: %s" % (cname, msg), what="contract", contract=cname)
