"""C05 - DL_POLY TABEAM files: declared count, block headers and values (DESIGN.md section 4, C05)."""
import io
import random

import mpmath as mp

import eamref
import emit
import oracle
import readers
import refmodel as R
import routes
import spec
from harness import exc_sig

PROPERTY_ID = "C05"
LEVEL = "exploration"
RULE = ("seeded random EAM and Finnis-Sinclair models with 1-4 elements, any subset/ordering of declared pair potentials, "
        "under-specified systems, grids down to n = 2 and n not a multiple of 4 (partial last record); routes writeTABEAM, "
        "writeTABEAMFinnisSinclair, TABEAM_EAMTabulation, TABEAM_FinnisSinclair_EAMTabulation, potable DL_POLY_EAM / "
        "DL_POLY_EAM_fs in-process and CLI. Non-trivial: >= 2 elements or a declared pair potential, with a non-zero value; "
        "distinct = canonical JSON of (model, route).")
ASSUMPTIONS = ["mpmath reference evaluator and scipy FITPACK are the trusted base",
               "block order is not fixed by the property; blocks are matched by keyword and species",
               "'%f' prints 6 decimals: comparison at that printed quantum"]
ANCHORS = ["_dlpoly_writeTABEAM.py:_tabulateFunction", "_dlpoly_writeTABEAM.py:_writePairPotentials", "_dlpoly_writeTABEAM.py:writeTABEAM",
           "_dlpoly_writeTABEAM.py:writeTABEAMFinnisSinclair", "eam_tabulation.py:TABEAM_EAMTabulation.write",
           "eam_tabulation.py:TABEAM_FinnisSinclair_EAMTabulation.write"]
MIN_NONTRIVIAL = {"quick": 20, "thorough": 200}
MIN_COUNTERS = {"values_compared": 1000, "blocks": 200}
TECHNIQUE = "runtime monitoring: TABEAM keyword-block reader (DL_POLY rules) vs mpmath reference; declared count vs blocks found"
LEVEL_TEXT = ("Exploration: real writers run on seeded random EAM/EEAM models; the file is read block by block (pair/embe/dens keyword "
              "headers with n, start, end; ceil(n/4) records; nothing left over) and the declared count, the set of blocks "
              "(one pair per unordered element pair incl. zero-filled ones, one embe per element, one dens per element or ordered pair), "
              "every header field and sampled values f(i*step) are compared with a 40-digit reference.")
LEVEL_NOTE = "Trusted: mpmath, scipy spline construction, the reader's transcription of the TABEAM layout, tolerance model of DESIGN.md 3.5."
DESIGN_REF = "DESIGN.md section 4, C05"

ROUTES = ["api_class", "api_legacy", "potable", "potable", "cli"]


def gen_cases(rng, tier):
  n = 130 if tier == "quick" else 1800
  cases = []
  for i in range(n):
    route = rng.choice(ROUTES) if i % 20 else "cli"
    groute = "api" if route.startswith("api") else "potable"
    kind = rng.choice(["eam", "fs"])
    model = spec.gen_eam_model(rng, kind, groute, target="DL_POLY_EAM" if kind == "eam" else "DL_POLY_EAM_fs")
    if i % 12 == 9:
      model = spec.long_labels(rng, model)          # 'Zirconium_a' / 'Zirconium_b': labels alike in their first 8 and 12 characters
    if i % 12 == 7:
      model = spec.numeric_species(rng, model)      # species labelled '9', '10', '2', '100'
    if i % 12 == 3 and groute == "potable":
      model = spec.ion_labels(rng, model)           # species labelled 'F-', 'Na+', 'Ca2+': 'F-->Ca' in A->B keys
    if i % 12 == 5:
      # [Species] overrides that are exactly zero for a species the built-in element table knows: an override is an override,
      # whatever its truth value
      known = [x for x in (model.get("all_species") or []) if x in spec.ELEMENT_DATA]
      if known:
        d_ = model.setdefault("species", {}).setdefault(known[0], {})
        d_["atomic_number"] = 0
        if i % 24 == 5:
          d_["atomic_mass"] = 0.0
    if groute == "api":
      model["api_containers"] = rng.choice([None, None, "tuple", "generator", "map", "amend_after_write"])
      if i % 3 == 1:
        model["api_density_lookup"] = "on_demand"     # functions made on lookup: a new callable object per access
      elif i % 3 == 2 and model.get("api_containers") != "amend_after_write":
        model["api_refit"] = 1                        # the state behind the functions changes between two writes
      if i % 5:
        # functions that return 0-d numpy arrays: fresh ones, integer-typed ones where the value is whole, memoised ones
        # (the same array object again for the same separation - it must come back unchanged); callables that are falsy
        model["api_results"] = [None, "numpy0d", "numpy0d_int", "numpy0d_cached", "falsy_callable"][i % 5]
      model["api_extra_density_keys"] = (i % 3 == 0)
    huge = None
    if i % 8 == 3:
      huge = spec.make_huge(rng, model)
    cases.append({"route": route, "model": model, "style": rng.randrange(1 << 30), "huge": huge})
  # discontinuities exactly ON rows of grids that are exact in doubles (first / interior / last row): judged strictly
  for i in range(10 if tier == "quick" else 100):
    route = ["potable", "cli", "api_class", "potable", "api_legacy"][i % 5]
    kind = ["eam", "fs"][i % 2]
    model = spec.exact_boundary_eam(rng, kind, "DL_POLY_EAM" if kind == "eam" else "DL_POLY_EAM_fs", "api" if route.startswith("api") else "potable")
    cases.append({"route": route, "model": model, "style": rng.randrange(1 << 30), "huge": None})
  # row-count sweep (everything small, m*10^k, 2^k, multiples of 5000, each with neighbours): structure and end values
  szs = spec.edge_sizes(tier, multiple_of=1, lo=2)
  for c0 in range(0, len(szs), 12):
    cases.append({"kind": "sizes", "sizes": szs[c0:c0 + 12], "route": "api_legacy", "model": None, "style": 0})
  return cases


def produce(ctx, model, route, rng):
  if model.get("api_refit") and route.startswith("api"):
    # a fitting loop: the table is written, the state behind the functions is refined, the table is written again with the
    # same function objects (and a fresh tabulation object) - the second table holds the refined functions
    ctx.cls("functions_refined_between_two_writes")
    routes.refit_begin()
    try:
      try:
        _produce(ctx, model, route, rng)
      except Exception:
        pass
      routes.refit_end()
      return _produce(ctx, model, route, rng)
    finally:
      routes.refit_done()
  return _produce(ctx, model, route, rng)


def _produce(ctx, model, route, rng):
  t = model["tab"]
  if route == "cli":
    res = routes.run_potable(["@IN", "@OUT"], emit.model_text(model, emit.Style(rng)))
    if res["rc"] == 1 and "OverflowError" in res["err"]:
      raise OverflowError("potable subprocess: math range error")
    if res["rc"] != 0 or not res["exists"]:
      ctx.violation("cli_failed", "potable rc=%s stderr=%s" % (res["rc"], res["err"][-500:]), what="cli", exc="rc%s" % res["rc"])
      return None
    return res["data"].decode()
  if route == "api_class":
    return routes.write_tab(routes.eam_tab_api(model))
  if route == "api_legacy":
    import atsim.potentials as ap
    pots, eams = routes.vary_containers(model, routes.eam_api_objects(model)[:2])
    nr, nrho = int(t["nr"]), int(t["nrho"])
    out = routes.text_sink()
    fn = ap.writeTABEAMFinnisSinclair if model["type"] == "fs" else ap.writeTABEAM
    fn(nrho, float(t["cutoff_rho"]) / (nrho - 1), nr, float(t["cutoff"]) / (nr - 1), eams, pots, out, rng.choice(["title %d", "title %d", "title %d\n", "Al-Cu EEAM\n%d functions", "t %d\r\n"]) % rng.randint(0, 99))
    return out.getvalue()
  return routes.write_tab(routes.read_config(emit.model_text(model, emit.Style(rng))))


def run_case(case, ctx):
  if case.get("kind") == "sizes":
    import sizesweep
    ctx.cls("kind:row_count_sweep")
    for n_ in case["sizes"]:
      ctx.cls(sizesweep.size_class(n_))
      if not (sizesweep.check_tabeam(ctx, n_)):
        return
    ctx.nontrivial(True)
    return
  model = case["model"]
  route = case["route"]
  fs = model["type"] == "fs"
  potable = not route.startswith("api")
  rng = random.Random(case["style"])
  ctx.cls("route:" + route)
  if model.get("api_containers"):
    ctx.cls("api_containers:" + model["api_containers"])
  if model.get("api_extra_density_keys") and route.startswith("api") and model["type"] == "fs":
    ctx.cls("density_dictionaries_with_extra_species")
  if case.get("huge"):
    ctx.cls("huge_values_1e45_1e80:" + case["huge"])
  ctx.cls("target:" + model["target"])
  ref = eamref.EamRef(model, potable)
  order = ref.order
  n = len(order)
  ctx.cls("nelements:%d" % n)
  nr, dr, nrho, drho = ref.grids()
  ctx.cls("partial_last_record" if (nr % 4 or nrho % 4) else "full_records")
  ridx = oracle.sample_rows(nr, rng, 12)
  rhoidx = oracle.sample_rows(nrho, rng, 12)
  strict = bool(model.get("exact_rows"))
  if strict:
    ctx.cls("exact_boundary_on_rows")
    ridx = sorted(set(ridx) | set(k for k in model["exact_rows"]["r"] if k < nr))
    rhoidx = sorted(set(rhoidx) | set(k for k in model["exact_rows"]["rho"] if k < nrho))
  if not ref.in_domain([R.F(dr * i) for i in ridx], [R.F(drho * i) for i in rhoidx], limit="1e100"):
    ctx.count("out_of_domain")
    return
  try:
    del routes.NUMPY0D_CACHED[:]
    text = produce(ctx, model, route, rng)
  except OverflowError as e:
    if eamref.overflow_is_out_of_domain(ref.all_functions()):
      ctx.count("out_of_domain")
      return
    et, fnn = exc_sig(e)
    ctx.violation("exception", "valid model failed: %s: %s" % (et, e), what="exception", exc=et, func=fnn)
    return
  except Exception as e:
    et, fnn = exc_sig(e)
    ctx.violation("exception", "valid model failed: %s: %s" % (et, e), what="exception", exc=et, func=fnn)
    return
  if text is None:
    return
  ctx.count("executions")
  if model.get("api_results"):
    ctx.cls("api_results:" + model["api_results"])
    if not routes.numpy0d_mutations(ctx):
      return
  try:
    p = readers.read_tabeam(text)
  except readers.FormatError as e:
    ctx.violation("format", str(e), what="format")
    return
  blocks = p["blocks"]
  expected = 3 * n * (n + 1) // 2 if fs else n * (n + 5) // 2
  if p["declared"] != len(blocks):
    ctx.violation("declared_count", "declared %d functions, found %d blocks" % (p["declared"], len(blocks)), what="declared_count")
  if len(blocks) != expected:
    ctx.violation("block_total", "%d blocks, expected %d for %d elements (%s)" % (len(blocks), expected, n, "EEAM" if fs else "EAM"), what="block_total")
  ctx.count("blocks", len(blocks))
  # expected block set
  want = {}
  for i in range(n):
    for j in range(i, n):
      want[("pair", frozenset([order[i], order[j]]))] = 0
  for s in order:
    want[("embe", (s,))] = 0
    if fs:
      for t in order:
        want[("dens", (s, t))] = 0
    else:
      want[("dens", (s,))] = 0
  nz = False
  declared = 0
  for b in blocks:
    kw, sp = b["kw"], b["species"]
    key = (kw, frozenset(sp)) if kw == "pair" else (kw, tuple(sp))
    if key not in want:
      ctx.violation("unexpected_block", "unexpected block %s %s" % (kw, sp), what="unexpected_block")
      continue
    want[key] += 1
    if kw == "embe":
      npts, step, orc, idx = nrho, drho, ref.embed(sp[0]), rhoidx
    elif kw == "dens":
      npts, step, idx = nr, dr, ridx
      orc = ref.density_fs(sp[0], sp[1]) if fs else ref.density(sp[0])
    else:
      npts, step, idx = nr, dr, ridx
      orc = ref.pairlike("pair", sp[0], sp[1])
      if ref.declared_pair("pair", sp[0], sp[1]):
        declared += 1
        ctx.cls("pair_declared")
      else:
        ctx.cls("pair_zero_filled")
    where = "%s %s route=%s" % (kw, " ".join(sp), route)
    if b["n"] != npts:
      ctx.violation("header_n", "%s: n=%d expected %d" % (where, b["n"], npts), what="header_n")
      continue
    if float(b["start_tok"]) != 0.0:
      ctx.violation("header_start", "%s: start %s" % (where, b["start_tok"]), what="header_start")
    oracle.check_token(ctx, "header_end", b["end_tok"], R.F(step * (npts - 1)), 0, rel=1e-12, where=where)
    eamref.check_series(ctx, "value_" + kw, b["values"], orc, step, idx, where, fmt="tabeam", strict=strict)
    nz = nz or any(float(t) != 0.0 for t in b["values"])
  for key, cnt in want.items():
    if cnt != 1:
      ctx.violation("block_multiplicity", "block %s %s appears %d times" % (key[0], sorted(key[1]) if key[0] == "pair" else key[1], cnt), what="block_multiplicity")
  ctx.nontrivial(nz and (n >= 2 or declared >= 1))
