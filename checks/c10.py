"""C10 - splined potentials keep their end potentials and join them with C2 continuity (DESIGN.md section 4, C10)."""
import math
import random

import mpmath as mp

import emit
import monitors
import refmodel as R
import routes
import spec
from harness import exc_sig
from spec import fnum

PROPERTY_ID = "C10"
LEVEL = "exploration"
RULE = ("seeded start/end pairs drawn from the twice-differentiable built-in forms (incl. pairs with non-positive end values, which drive the "
        "upward shift of the exponential spline), 0.3 <= detach < (r_min <) attach <= 6, systems with condition number <= 1e10; both spline "
        "types; r in {well below, detach, its floating-point neighbours, interior points, r_min and neighbours, attach and neighbours, beyond}; "
        "constructions: SplinePotential / Buck4_SplinePotential, the spline() modifier through potable, as.buck4 vs its documented spline() "
        "expansion vs potentialforms.buck4. Non-trivial: start and end potentials differ and the interior reference value differs from both "
        "end potentials at an interior point; distinct = canonical JSON of the spline definition.")
ASSUMPTIONS = ["reference coefficients: mpmath lu_solve of the documented 6x6 / 10x10 systems with mpmath derivatives of the reference end potentials",
               "interior tolerance scaled by the conditioning of the system (double-precision numpy solve)"]
ANCHORS = ["spline/__init__.py:Exp_Spline._init_spline_coefficients", "spline/__init__.py:Buck4_Spline._init_spline_coefficients",
           "spline/__init__.py:Buck4_Spline._which_spline", "spline/__init__.py:Custom_SplinePotential.__call__", "_modifiers.py:spline",
           "potentialforms.py:buck4"]
MIN_NONTRIVIAL = {"quick": 50, "thorough": 600}
MIN_COUNTERS = {"region_points": 1500, "interior_points": 600, "continuity_checks": 500, "contract_spline_call": 1500}
TECHNIQUE = "runtime monitoring: region contract (icontract) on Custom_SplinePotential.__call__, one-sided C2 limits, reference coefficient solve in mpmath, 3-way construction differential"
LEVEL_TEXT = ("Exploration: splines are built through the Python classes, the spline() modifier and as.buck4; outside [detach, attach] the value "
              "must be bit-identical to the end potentials (also enforced by an icontract postcondition on every call); inside, value and the "
              "published coefficients are compared with an independent mpmath solve of the documented system; value, slope and curvature of "
              "the interior function are compared with the end potentials at detach/attach (and across r_min, with zero slope there); the "
              "equivalent constructions must agree to 1e-12.")
LEVEL_NOTE = "Trusted: mpmath lu_solve/diff and my transcription of the documented spline systems."
DESIGN_REF = "DESIGN.md section 4, C10"

STARTS = ["buck", "bornmayer", "morse", "polynomial", "zbl", "lj", "coul", "hbnd", "exp_spline"]
ENDS = ["buck", "bornmayer", "morse", "polynomial", "lj", "hbnd", "coul", "constant", "zero", "sqrt"]


def gen_cases(rng, tier):
  n = 140 if tier == "quick" else 2000
  cases = []
  for i in range(n):
    kind = "buck4_spline" if i % 3 == 0 else "exp_spline"
    rd = spec.rfloat(rng, 0.3, 3.0, 2)
    if kind == "exp_spline":
      ra = round(min(6.0, rd + spec.rfloat(rng, 0.3, 2.5, 2)), 3)
      rmin = None
    else:
      rmin = round(rd + spec.rfloat(rng, 0.25, 1.2, 2), 3)
      ra = round(min(6.0, rmin + spec.rfloat(rng, 0.25, 1.5, 2)), 3)
    sname, ename = rng.choice(STARTS), rng.choice(ENDS)
    start = {"k": "form", "name": sname, "p": spec.gen_form_params(rng, sname, rmax=1.0)}
    end = {"k": "form", "name": ename, "p": spec.gen_form_params(rng, ename, rmax=1.0)}
    for nd in (start, end):
      if nd["name"] in ("buck", "bornmayer"):
        nd["p"][1] = abs(nd["p"][1]) + 0.1
    if i % 9 in (3, 4):
      # detach / r_min / attach given as whole numbers of type int ('>1 buck4_spline 2 >3'): same numbers, another type
      rd = rng.choice([1, 2])
      if kind == "exp_spline":
        ra, rmin = rd + rng.choice([1, 2]), None
      else:
        rmin = rd + 1
        ra = rmin + rng.choice([1, 2])
      for nd in (start, end):
        if nd["name"] == "zbl":
          nd["name"], nd["p"] = "bornmayer", [500.0, 0.4]
    unit = None
    if i % 7 == 5:
      # the same model in another energy unit (Joules: 1.6e-19; or something huge): the spline problem is linear
      # (buck4) / shifts ln c into B0 (exp), so nothing may depend on the absolute magnitude of the end potentials
      e = rng.choice([-25, -19, -16, -12, 9, 15])
      s2, e2 = spec.scale_form(start, e), spec.scale_form(end, e)
      if s2 is not None and e2 is not None:
        start, end, unit = s2, e2, e
    node = {"k": "spline", "kind": kind, "s0": ["-inf"], "start": start, "md": rng.choice([">", ">="]), "rd": rd,
            "ma": rng.choice([">", ">="]), "ra": ra, "end": end}
    if rmin is not None:
      node["rmin"] = rmin
    cases.append({"kind": "spline", "node": node, "unit": unit})
    if i % 6 == 0:
      # neighbours: splines built in ONE process that differ from this one in exactly one of detach / r_min / attach
      import copy
      nodes = [node]
      for key, delta in (("rmin", 0.07), ("rd", -0.05), ("ra", 0.06), ("rmin", -0.06)):
        if key in node:
          n2 = copy.deepcopy(node)
          n2[key] = round(n2[key] + delta, 4)
          if n2["rd"] < n2.get("rmin", (n2["rd"] + n2["ra"]) / 2) < n2["ra"]:
            nodes.append(n2)
      cases.append({"kind": "neighbours", "nodes": nodes})
  nb = 30 if tier == "quick" else 400
  for i in range(nb):
    rd = spec.rfloat(rng, 0.6, 1.8, 2)
    rm = round(rd + spec.rfloat(rng, 0.3, 0.9, 2), 3)
    ra = round(rm + spec.rfloat(rng, 0.3, 1.0, 2), 3)
    A, C = spec.rfloat(rng, 100.0, 9000.0), spec.rfloat(rng, 0.5, 120.0)
    if i % 6 == 2:
      rd, rm, ra = 1, 2, rng.choice([3, 4])      # whole-number radii of type int
    if i % 12 == 8:
      # whole-number radii of type int whose fifth power no longer fits a machine integer (a table in other length units):
      # the coefficient matrix must be one of floats
      rd, rm, ra = rng.choice([(8000, 9000, 10000), (7200, 7400, 7600), (20000, 30000, 40000)])
    unit = None
    if i % 5 == 3:
      unit = rng.choice([-25, -19, -16, -12, 9, 15])
      A, C = (A * 10.0 ** unit), (C * 10.0 ** unit)
    cases.append({"kind": "buck4", "p": [A, spec.rfloat(rng, 0.15, 0.5), C, rd, rm, ra], "unit": unit})
  if tier in ["thorough"]:
    cases.append({"kind": "suite"})   # the repository's own tests with this check's contracts armed
  return cases


_contracts = None


def setup_worker():
  global _contracts
  from atsim.potentials import spline as sp
  _contracts = monitors.Contracts()

  def cond(args, kwargs, result):
    self, r = args[0], args[1]
    if r <= self.detachmentX:
      want = self.startPotential(r)
      where = "r <= detach"
    elif r >= self.attachmentX:
      want = self.endPotential(r)
      where = "r >= attach"
    else:
      want = self.interpolationFunction(r)
      where = "interior"
    ok = (result == want) or (result != result and want != want)
    return ok, "Custom_SplinePotential(%r) = %r but %s gives %r" % (r, result, where, want)
  _contracts.ensure(sp.Custom_SplinePotential, "__call__", cond, "spline_call")


def rpoints(node, rng):
  rd, ra = node["rd"], node["ra"]
  pts = [rd * 0.3, rd * 0.9, rd, math.nextafter(rd, 0), math.nextafter(rd, 9), ra, math.nextafter(ra, 0), math.nextafter(ra, 99), ra + 0.4, ra + 3.0]
  pts += [rd + (ra - rd) * t for t in (0.05, 0.2, 0.35, 0.5, 0.65, 0.8, 0.95)]
  if node.get("rmin") is not None:
    rm = node["rmin"]
    pts += [rm, math.nextafter(rm, 0), math.nextafter(rm, 99), rm - 1e-6, rm + 1e-6]
  return sorted(set(pts))


def potable_function(text_def, extra=""):
  text = "[Tabulation]\ntarget : LAMMPS\nnr : 5\ncutoff : 2.0\n\n[Pair]\nA-B : %s\n%s" % (text_def, extra)
  return routes.read_config(text).potentials[0].potentialFunction


def run_buck4(case, ctx):
  from atsim.potentials import potentialforms as pf
  A, rho, C, rd, rm, ra = case["p"]
  ctx.cls("kind:buck4_equivalence")
  if case.get("unit") is not None:
    ctx.cls("energy_unit_scaled:1e%d" % case["unit"])
  ptxt = " ".join(fnum(v) for v in case["p"])
  try:
    f_api = pf.buck4(*case["p"])
    f_as = potable_function("as.buck4 " + ptxt)
    f_doc = potable_function("spline(as.buck %s %s 0 >%s buck4_spline %s >%s as.buck 0 1 %s)" % (fnum(A), fnum(rho), fnum(rd), fnum(rm), fnum(ra), fnum(C)))
  except Exception as e:
    et, fn = exc_sig(e)
    ctx.violation("exception", "buck4 construction failed: %s %s" % (et, e), what="exception", exc=et, func=fn)
    return
  M = R.Model()
  node = {"k": "buck4", "p": case["p"]}
  nz = False
  for r in [rd * 0.5, rd, (rd + rm) / 2, rm, (rm + ra) / 2, ra, ra + 1.0, ra + 5.0, 0.05]:
    try:
      vals = {"potentialforms.buck4": f_api(r), "as.buck4": f_as(r), "documented spline() expansion": f_doc(r)}
      ders = {"potentialforms.buck4": (f_api.deriv(r), f_api.deriv2(r)), "as.buck4": (f_as.deriv(r), f_as.deriv2(r)),
              "documented spline() expansion": (f_doc.deriv(r), f_doc.deriv2(r))}
    except Exception as e:
      et, fn = exc_sig(e)
      ctx.violation("exception", "buck4 evaluation failed at %r: %s %s" % (r, et, e), what="exception", exc=et, func=fn)
      return
    ref = M.value(node, R.F(r))
    mag = M.mag(node, R.F(r))
    base = vals["potentialforms.buck4"]
    ctx.count("equivalence_points")
    for name, v in vals.items():
      if not (abs(v - base) <= 1e-12 * max(abs(base), float(mag) * 1e-3, 1e-300)):
        ctx.violation("constructions_disagree", "buck4 %s at r=%r: %r" % (case["p"], r, vals), what="constructions_disagree")
        return
      for k in (0, 1):
        b = ders["potentialforms.buck4"][k]
        if not (abs(ders[name][k] - b) <= 1e-10 * max(abs(b), float(mag) * 1e-3 * 16 ** (k + 1), 1e-300)):
          ctx.violation("constructions_disagree", "buck4 %s derivative order %d at r=%r: %r" % (case["p"], k + 1, r, ders), what="constructions_disagree")
          return
    ok, diff, tol = R.close(base, ref, sc=abs(ref), mag=mag)
    if not ok:
      ctx.violation("buck4_value", "buck4 %s at r=%r: %r vs reference %s" % (case["p"], r, base, mp.nstr(ref, 15)), what="buck4_value")
    if rd < r < ra and ref != 0:
      nz = True
  ctx.nontrivial(nz)


def run_case(case, ctx):
  if case.get("kind") == "neighbours":
    ctx.cls("kind:neighbour_splines_in_one_process")
    for nd in case["nodes"]:
      run_case({"kind": "spline", "node": nd}, ctx)
    return
  if case.get("kind") == "suite":
    import suite_contracts
    ctx.cls("kind:suite_with_contracts")
    return suite_contracts.run_suite(ctx, 'c10', ['spline_call'])
  if case["kind"] == "buck4":
    return run_buck4(case, ctx)
  node = case["node"]
  ctx.cls("kind:" + node["kind"])
  if all(isinstance(node.get(k_), int) for k_ in ("rd", "ra")):
    ctx.cls("radii_of_type_int")
  if case.get("unit") is not None:
    ctx.cls("energy_unit_scaled:1e%d" % case["unit"])
  M = R.Model()
  rng = random.Random(int(node["rd"] * 1000))
  rd, ra = node["rd"], node["ra"]
  try:
    co_ref, cond = M.spline_info(node)
  except (R.RefDomainError, ZeroDivisionError, ValueError, OverflowError):
    ctx.count("out_of_domain")
    return
  if cond > mp.mpf("1e10"):
    ctx.count("ill_conditioned_skipped")
    return
  if node["kind"] == "exp_spline":
    # exp(poly)+C needs positive end values; the documented trick shifts non-positive ones up by 1 - min(V): a shift
    # of magnitude >= 2^52 swallows the "1" in double arithmetic (log(0)), i.e. such end values are outside the range
    # in which the exponential spline is conditioned at all
    ends = [M.value(node["start"], R.F(node["rd"])), M.value(node["end"], R.F(node["ra"]))]
    if min(ends) <= 0 and abs(min(ends)) > mp.mpf(2) ** 50:
      ctx.count("ill_conditioned_skipped")
      ctx.cls("exp_spline_shift_beyond_double_resolution")
      return
  if node["kind"] == "exp_spline" and max(abs(co_ref[i]) * R.F(node["ra"]) ** i for i in range(6)) > mp.mpf("1e7"):
    # the polynomial inside exp() is a sum of terms > 1e7 that cancel: its double rounding error (> 1e-9) is
    # amplified by exp(); such end-potential data are outside "where both are well-conditioned"
    ctx.count("ill_conditioned_skipped")
    return
  try:
    for r in rpoints(node, rng):
      if abs(M.value(node, R.F(r))) > mp.mpf("1e100"):
        raise R.RefDomainError("huge")
  except (R.RefDomainError, ZeroDivisionError, ValueError, OverflowError):
    ctx.count("out_of_domain")
    return
  before = _contracts.counts.get("spline_call", 0)
  nf0 = len(_contracts.failures)
  try:
    f_api = emit.api_callable(node)
    pn = dict(node)
    pn["s0"] = [">", 0.0]
    f_pot = potable_function(emit.node_text(pn, emit.Style(random.Random(1))))
    start = emit.api_callable(node["start"])
    end = emit.api_callable(node["end"])
  except Exception as e:
    et, fn = exc_sig(e)
    ctx.violation("exception", "spline construction failed: %s %s" % (et, e), what="exception", exc=et, func=fn)
    return
  amp = float(max(mp.mpf(1), cond * mp.mpf("1e-3")))
  interior_differs = False
  for r in rpoints(node, rng):
    rr = R.F(r)
    try:
      v_api, v_pot = f_api(r), f_pot(r)
    except Exception as e:
      et, fn = exc_sig(e)
      ctx.violation("exception", "evaluation failed at %r: %s %s" % (r, et, e), what="exception", exc=et, func=fn)
      return
    ctx.count("region_points")
    if r <= rd:
      want = start(r)
      if v_api != want or v_pot != want:
        ctx.violation("start_region", "r=%r <= detach=%r: classes give %r, spline() gives %r, start potential %r" % (r, rd, v_api, v_pot, want), what="start_region")
        return
    elif r >= ra:
      want = end(r)
      if v_api != want or v_pot != want:
        ctx.violation("end_region", "r=%r >= attach=%r: classes give %r, spline() gives %r, end potential %r" % (r, ra, v_api, v_pot, want), what="end_region")
        return
    else:
      ref = M.value(node, rr)
      mag = M.mag(node, rr)
      ctx.count("interior_points")
      for nm, v in (("classes", v_api), ("spline() modifier", v_pot)):
        ok, diff, tol = R.close(v, ref, sc=abs(ref), mag=mag)
        if not ok:
          ctx.violation("interior_value", "%s at r=%r: %r, advertised shape with reference coefficients gives %s (|diff|=%.3g tol=%.3g cond=%.2g)" % (
            nm, r, v, mp.nstr(ref, 15), diff, tol, float(cond)), what="interior_value")
          return
      if not (abs(v_api - v_pot) <= 1e-12 * max(abs(v_api), float(mag) * 1e-3)):
        ctx.violation("constructions_disagree", "r=%r: classes %r vs spline() %r" % (r, v_api, v_pot), what="constructions_disagree")
        return
      if abs(ref - M.value(node["start"], rr)) > 1e-6 * abs(ref) and abs(ref - M.value(node["end"], rr)) > 1e-6 * abs(ref):
        interior_differs = True
  # the lower bound of the START potential written explicitly in spline(): '>=S' includes r = S, '>S' does not, and the
  # function is zero below; for S < r <= detach it still equals the start potential
  # (S > 0: the spline() definition as a whole has no leading marker and therefore acts for r > 0 only)
  S = round(min(0.5 * rd, rng.choice([0.25, 0.125, 0.5])), 6)
  for marker in (">=", ">"):
    pn2 = dict(node)
    pn2["s0"] = [marker, S]
    try:
      f2 = potable_function(emit.node_text(pn2, emit.Style(random.Random(2))))
      at_S, above, below = f2(S), f2(S + 0.5 * (rd - S)), f2(S - 0.01)
      w_S, w_above = start(S) if marker == ">=" else 0.0, start(S + 0.5 * (rd - S))
    except (ZeroDivisionError, OverflowError):
      continue            # the start potential itself is singular at S (e.g. S = 0 for a Coulomb-like form)
    except Exception as e:
      et, fn = exc_sig(e)
      ctx.violation("exception", "spline() with start bound %s%s failed: %s %s" % (marker, S, et, e), what="exception", exc=et, func=fn)
      return
    ctx.count("start_bound_points", 3)
    if at_S != w_S or above != w_above or below != 0.0:
      ctx.violation("start_bound", "spline(%s%s start ...): f(S)=%r (expected %r), f between S and detach=%r (expected %r), f below S=%r (expected 0)" % (
        marker, S, at_S, w_S, above, w_above, below), what="start_bound")
      return
  # published coefficients
  co = list(f_api.splineCoefficients)
  if len(co) != len(co_ref):
    ctx.violation("coefficient_count", "%d coefficients published, %d expected" % (len(co), len(co_ref)), what="coefficient_count")
  else:
    cmax = max(abs(c) for c in co_ref)
    for i, (c, cr) in enumerate(zip(co, co_ref)):
      if abs(R.F(c) - cr) > mp.mpf("1e-13") * amp * 1e3 * cmax + mp.mpf("1e-9") * abs(cr):
        ctx.violation("coefficients", "coefficient %d = %r, reference solve gives %s (cond %.2g)" % (i, c, mp.nstr(cr, 15), float(cond)), what="coefficients")
        break
    ctx.count("coefficient_sets")
  # one-sided C2 limits of the interior function
  inter = f_api.interpolationFunction

  def err_bound(x, order):
    """Error the double-precision solve (relative coefficient error ~ cond*u) may leave in the
    order-th derivative of the interior function at x."""
    x = R.F(x)
    eu = cond * mp.mpf("1e-13")
    def eps(k, cs):
      cm = max(abs(c) for c in cs)
      return eu * cm * sum(mp.mpf(math.factorial(i) // math.factorial(i - k)) * x ** (i - k) for i in range(k, len(cs)))
    if node["kind"] == "exp_spline":
      B = co_ref[:6]
      p0 = sum(B[i] * x ** i for i in range(6))
      p1 = sum(i * B[i] * x ** (i - 1) for i in range(1, 6))
      p2 = sum(i * (i - 1) * B[i] * x ** (i - 2) for i in range(2, 6))
      E = mp.exp(p0)
      e0, e1, e2 = eps(0, B), eps(1, B), eps(2, B)
      uu = mp.mpf("1e-13")
      if order == 0:
        return E * (e0 + uu) + abs(co_ref[6]) * uu
      if order == 1:
        return E * (e1 + abs(p1) * (e0 + uu))
      return E * (e2 + 2 * abs(p1) * e1 + (abs(p2) + p1 * p1) * (e0 + uu))
    return eps(order, co_ref[:6]) + eps(order, co_ref[6:])

  for (x, pot, nd, name) in ((rd, start, node["start"], "detach"), (ra, end, node["end"], "attach")):
    xx = R.F(x)
    for order, got in ((0, inter(x)), (1, inter.deriv(x)), (2, inter.deriv2(x))):
      ref = M.deriv(nd, xx, order)
      magn = M.mag(nd, xx) * (16 * max(1 / xx, 1)) ** order
      ok, diff, tol = R.close(got, ref, sc=abs(ref), rel=1e-8, mag=magn, abs_=err_bound(x, order))
      ctx.count("continuity_checks")
      if not ok:
        ctx.violation("c2_continuity", "interior function order-%d derivative at %s=%r is %r, end potential has %s (|diff|=%.3g tol=%.3g)" % (
          order, name, x, got, mp.nstr(ref, 15), diff, tol), what="c2_continuity", at=name)
        return
  if node["kind"] == "buck4_spline":
    rm = node["rmin"]
    s5, s3 = inter.spline5, inter.spline3
    if len(s5.args) != 6 or len(s3.args) != 4:
      ctx.violation("degree", "spline5 has %d and spline3 %d coefficients" % (len(s5.args), len(s3.args)), what="degree")
    cm = float(max(abs(c) for c in co_ref)) * sum(rm ** i for i in range(6)) * amp
    for order, a, b in ((0, s5(rm), s3(rm)), (1, s5.deriv(rm), s3.deriv(rm)), (2, s5.deriv2(rm), s3.deriv2(rm))):
      ctx.count("continuity_checks")
      if not (abs(a - b) <= 1e-10 * cm * 30 ** order):
        ctx.violation("c2_continuity", "order-%d derivative jumps across r_min=%r: %r vs %r" % (order, rm, a, b), what="c2_continuity", at="r_min")
        return
    if not (abs(s5.deriv(rm)) <= 1e-10 * cm * 30):
      ctx.violation("rmin_slope", "slope at r_min=%r is %r, not 0" % (rm, s5.deriv(rm)), what="rmin_slope")
    # region: r < r_min -> quintic, r >= r_min -> cubic (published shape)
    for r in (math.nextafter(rm, 0), rm, math.nextafter(rm, 99)):
      want = s5(r) if r < rm else s3(r)
      if inter(r) != want:
        ctx.violation("rmin_region", "interior function at %r uses the wrong polynomial" % r, what="rmin_region")
    # degree by finite differences: 4th difference of the cubic side, 6th of the quintic side vanish
    h = (ra - rm) / 8
    d4 = sum(((-1) ** k) * math.comb(4, k) * inter(rm + h * (1 + k)) for k in range(5))
    h5 = (rm - rd) / 8
    d6 = sum(((-1) ** k) * math.comb(6, k) * inter(rd + h5 * (0.5 + k)) for k in range(7))
    if not (abs(d4) <= 1e-9 * cm and abs(d6) <= 1e-8 * cm):
      ctx.violation("degree", "finite differences d4=%r (cubic side) d6=%r (quintic side) do not vanish (scale %r)" % (d4, d6, cm), what="degree")
  else:
    # advertised shape: (value - C) is positive and log(value - C) is a quintic: 6th finite difference vanishes
    C = co[6]
    h = (ra - rd) / 8
    xs = [rd + h * (0.5 + k) for k in range(7)]
    Es = [mp.exp(sum(co_ref[i] * R.F(x) ** i for i in range(6))) for x in xs]
    if min(Es) > max(mp.mpf("1e-4") * abs(co_ref[6]), mp.mpf("1e-200")):   # otherwise value - C cancels or underflows in double arithmetic
      try:
        logs = [math.log(inter(x) - C) for x in xs]
        d6 = sum(((-1) ** k) * math.comb(6, k) * logs[k] for k in range(7))
        sc = max(abs(x) for x in logs) + 1
        ctx.count("shape_checks")
        if not (abs(d6) <= 1e-7 * sc * amp):
          ctx.violation("degree", "log(value - C) is not a fifth-order polynomial (6th difference %r)" % d6, what="degree")
      except ValueError:
        ctx.violation("degree", "value - C is not positive inside the splined region", what="degree")
  ctx.nontrivial(interior_differs and node["start"] != node["end"])
  ctx.count("contract_spline_call", _contracts.counts.get("spline_call", 0) - before)
  for cname, msg, _ in _contracts.failures[nf0:nf0 + 3]:
    ctx.violation("contract", "%s: %s" % (cname, msg), what="contract", contract=cname)
