"""C01 - LAMMPS pair_style table files are faithful to the model (DESIGN.md section 4, C01)."""
import io
import random

import mpmath as mp

import emit
import monitors
import oracle
import readers
import refmodel as R
import routes
import spec
from harness import exc_sig

PROPERTY_ID = "C01"
LEVEL = "exploration"
RULE = ("seeded random pair models (1-6 potentials mixing built-in forms, custom formulas, modifiers to depth 3, "
        "multi-range, exp/buck4 splines, table forms, Python callables with/without .deriv), cutoffs 0.5-20, "
        "nr 3..400 (quick) / ..5000 (thorough), routes: tabulation class, writePotentials('LAMMPS'), potable "
        "in-process and potable CLI. A case is non-trivial when at least one potential is not constant/zero and "
        "its reference force differs from 0 at some sampled row; distinct = distinct canonical JSON of (model, route).")
ASSUMPTIONS = ["mpmath (40 digits) reference evaluator and scipy FITPACK spline construction are the trusted base",
               "tolerance model of DESIGN.md 3.5: printed quantum/2 + 1e-9*local magnitude (+ central-difference slack where the callable offers no analytic derivative)",
               "block titles may be 'A-B' as given or sorted (code and manual disagree; the statement fixes only the two labels)"]
ANCHORS = ["_lammps_writeTABLE.py:_writeSinglePotential", "pair_tabulation.py:LAMMPS_PairTabulation.write",
           "_potential.py:Potential.force", "__init__.py:writePotentials"]
MIN_NONTRIVIAL = {"quick": 20, "thorough": 200}
MIN_COUNTERS = {"values_compared": 500, "trace_events_checked": 500}

ROUTES = ["api_class", "api_legacy", "potable", "potable", "cli"]


def gen_cases(rng, tier):
  n = 160 if tier == "quick" else 3000
  cases = []
  for i in range(n):
    route = rng.choice(ROUTES) if i % 25 else "cli"
    groute = "api" if route.startswith("api") else "potable"
    big = [1001, 2000, 5000] if tier == "thorough" and rng.random() < 0.05 else []
    model = spec.gen_pair_model(rng, groute, target="LAMMPS", nr_choices=[3, 4, 5, 8, 11, 21, 50, 101, 200, 400] + big)
    if route.startswith("api"):
      model["api_variant"] = rng.choice([None, None, "tuple", "int_cutoff", "kwargs", "realfile", "amend_after_write"])
      if i % 7 == 3:
        model["api_variant"] = "refit"      # the state behind the functions is refined between two writes of the same objects
      if model["api_variant"] == "int_cutoff":
        model["tab"]["cutoff"] = float(rng.randint(1, 20))
      if i % 5:
        model["api_results"] = [None, "numpy0d", "numpy0d_int", "numpy0d_cached", "falsy_callable"][i % 5]   # functions returning 0-d numpy arrays (fresh / integer-typed / memoised)
    if i % 9 == 7 and not route.startswith("api") and len(model["pair"]) >= 2:
      # two pairs using one built-in form with parameters that agree to six significant figures: each block is its own
      from checks.c09 import NEAR_EQUAL_PARAMS
      pa_, pb_ = rng.choice(NEAR_EQUAL_PARAMS)
      model["pair"][0][-1], model["pair"][1][-1] = dict(pa_), dict(pb_)
    if i % 9 == 4 and not route.startswith("api"):
      # a formula that rescales one of its own parameters ('rho := rho*0.529177; ...'): every row starts from the parameter
      # as written in the file
      model["forms"] = list(model.get("forms") or []) + [
        {"name": "selfscale", "params": ["r", "A", "rho"], "breaks": [],
         "expr": ["assign_then", "rho", ["*", ["var", "rho"], ["num", 0.529177]], ["*", ["var", "A"], ["call", "exp", [["neg", ["/", ["var", "r"], ["var", "rho"]]]]]]]}]
      model["pair"][-1][-1] = {"k": "custom", "name": "selfscale", "args": [spec.rfloat(rng, 5.0, 500.0, 2), spec.rfloat(rng, 0.5, 1.5, 3)]}
    cases.append({"route": route, "model": model, "style": rng.randrange(1 << 30)})
  # energy exactly 0 at a grid row where the slope is not (root on the grid)
  for i in range(20 if tier == "quick" else 120):
    nr = rng.choice([5, 9, 21, 41])
    cutoff = (nr - 1) * rng.choice([0.25, 0.125, 0.5])
    dr = cutoff / (nr - 1)
    k = rng.randint(1, nr - 2)
    node, rv = spec.root_node(rng, k * dr, spec.ROOT_VARIANTS[i % len(spec.ROOT_VARIANTS)])
    route = ["api_class", "api_legacy", "potable", "cli"][(i + i // 10) % 4]
    model = {"type": "pair", "target": "LAMMPS", "tab": {"nr": nr, "cutoff": cutoff}, "forms": [], "tables": [], "pair": [["Ar", "Ar", node]]}
    cases.append({"route": route, "model": model, "style": rng.randrange(1 << 30), "root_on_grid": k, "root_variant": rv})
  # a discontinuity exactly ON a row of a grid that is exact in doubles (first row, interior, last row = cutoff), and a
  # table form whose data points are the rows themselves: the row is on a definite side, judged strictly
  for i in range(28 if tier == "quick" else 196):
    v = spec.EXACT_BOUNDARY_VARIANTS[i % len(spec.EXACT_BOUNDARY_VARIANTS)]
    route = ["potable", "cli", "api_legacy", "api_class"][(i % 7 + i // 7) % 4]   # every variant meets every route (7 = -1 mod 4: i + i//7 would not)
    model, k = spec.exact_boundary_model(rng, "LAMMPS", v, shared=route.startswith("api"))
    cases.append({"route": route, "model": model, "style": rng.randrange(1 << 30), "exact_boundary": v, "root_on_grid": k})
  # decimal grids: a discontinuity 8 ulps to either side of an upper row, just above the cutoff, table data ending AT the
  # cutoff - row k (the last row for the latter two) is on a definite side whatever rounding of k*dr the writer uses
  for i in range(16 if tier == "quick" else 80):
    v = spec.NEAR_ROW_VARIANTS[i % 4]
    route = ["api_class", "potable", "api_legacy", "cli"][(i // 4) % 4]
    model, k = spec.near_row_boundary_model(rng, "LAMMPS", v, i // 4 + (0 if i % 8 < 4 else 3))
    cases.append({"route": route, "model": model, "style": rng.randrange(1 << 30), "near_row_boundary": v, "root_on_grid": k, "strict_rows": [k]})
  # plain Python callables whose first rows are whole numbers returned as int (a capped core: 100 below r_c), floats later
  for i in range(6 if tier == "quick" else 40):
    nr = rng.choice([5, 9, 21, 41])
    cutoff = (nr - 1) * 0.25
    rc = rng.choice([0.5, 1.0, 1.5])
    node = {"k": "ranges", "parts": [[">=", 0.0, {"k": "form", "name": "constant", "p": [rng.choice([100.0, 50.0, 7.0])]}],
                                      [">", rc, {"k": "form", "name": "polynomial", "p": [spec.rfloat(rng, 1.0, 5.0), spec.rfloat(rng, -1.0, -0.2), spec.rfloat(rng, 0.01, 0.1)]}]]}
    model = {"type": "pair", "target": "LAMMPS", "tab": {"nr": nr, "cutoff": cutoff}, "forms": [], "tables": [], "pair": [["Ar", "Kr", node]], "api_results": "int_when_whole"}
    cases.append({"route": ["api_class", "api_legacy"][i % 2], "model": model, "style": rng.randrange(1 << 30)})
  # row-count sweep (everything small, m*10^k, 2^k, multiples of 5000, each with neighbours): structure and end values
  szs = spec.edge_sizes(tier, multiple_of=1, lo=2)   # nr = 2: a table of ONE row, at r = cutoff
  for c0 in range(0, len(szs), 12):
    cases.append({"kind": "sizes", "sizes": szs[c0:c0 + 12], "route": "api_legacy", "model": None, "style": 0})
  # Potential(..., h=H) with a callable that offers no derivative: the documented fallback is the central difference of
  # step H, (U(r+H/2) - U(r-H/2)) / H, so the force column holds exactly that stencil of the energy function
  # (seeded change C01r10 dropped H on the way and always differenced with the default 1e-6)
  for i in range(8 if tier == "quick" else 80):
    cases.append({"kind": "custom_h", "h": [0.05, 0.02, 0.1, 0.004][i % 4], "A": spec.rfloat(rng, 200.0, 2000.0, 1), "rho": spec.rfloat(rng, 0.25, 0.5, 3),
                  "C": spec.rfloat(rng, 0.0, 30.0, 2), "nr": rng.choice([6, 11, 40]), "cutoff": rng.choice([5.0, 6.5, 10.0]), "route": ["api_class", "api_legacy", "gradient"][i % 3],
                  "model": None, "style": 0})
  return cases


def run_custom_h(case, ctx):
  import math
  import atsim.potentials as ap
  from atsim.potentials.pair_tabulation import LAMMPS_PairTabulation
  A, rho, C, h, nr, cutoff = case["A"], case["rho"], case["C"], case["h"], case["nr"], case["cutoff"]
  U = lambda r: A * math.exp(-r / rho) - C / r ** 6
  ctx.cls("kind:custom_h")
  ctx.cls("custom_h_route:" + case["route"])
  if case["route"] == "gradient":
    # the documented helper itself: gradient(func, h) is the stencil of step h
    g = ap.gradient(U, h)
    for k in range(1, nr):
      r = cutoff * k / (nr - 1)
      want = (U(r + h / 2.0) - U(r - h / 2.0)) / ((r + h / 2.0) - (r - h / 2.0))
      ctx.count("values_compared")
      if not (abs(g(r) - want) <= 1e-9 * max(abs(want), 1e-6)):
        ctx.violation("force", "gradient(U, h=%r)(%r) = %r, the central difference of step h is %r" % (h, r, g(r), want), what="force", mech="custom_h")
        return
    ctx.nontrivial(True)
    return
  pots = [ap.Potential("Aa", "Bb", U, h=h), ap.Potential("Bb", "Bb", U, h)]
  out = io.StringIO()
  if case["route"] == "api_class":
    LAMMPS_PairTabulation(pots, cutoff, nr).write(out)
  else:
    ap.writePotentials("LAMMPS", pots, cutoff, nr, out)
  secs = readers.read_lammps_table(out.getvalue())
  if len(secs) != 2:
    ctx.violation("format", "%d blocks for 2 potentials" % len(secs), what="format")
    return
  for sec in secs:
    for row in sec["rows"]:
      r = float(row[1])
      if r - h / 2.0 <= 0:
        continue
      want = -(U(r + h / 2.0) - U(r - h / 2.0)) / ((r + h / 2.0) - (r - h / 2.0))
      got = float(row[3])
      ctx.count("values_compared")
      ctx.count("force_custom_step_rows")
      # r is printed with 8 decimals: the stencil is evaluated at the printed r +- 5e-9 -> relative slack 1e-8 * |U''/U'| ~ 1e-7
      if not (abs(got - want) <= 2e-6 * abs(want) + 2e-8):
        ctx.violation("force", "Potential(h=%r): force at r=%s is %r, minus the central difference of step h is %r (with the default step it would be %r)" % (
          h, row[1], got, want, -(U(r + 5e-7) - U(r - 5e-7)) / 1e-6), what="force", mech="custom_h")
        return
  ctx.nontrivial(True)


def run_case(case, ctx):
  if case.get("kind") == "custom_h":
    return run_custom_h(case, ctx)
  if case.get("kind") == "sizes":
    import sizesweep
    ctx.cls("kind:row_count_sweep")
    for n_ in case["sizes"]:
      ctx.cls(sizesweep.size_class(n_))
      if not (sizesweep.check_lammps(ctx, n_)):
        return
    ctx.nontrivial(True)
    return
  model = case["model"]
  route = case["route"]
  groute = "api" if route.startswith("api") else "potable"
  M = R.Model(model["forms"], model["tables"])
  cutoff = float(model["tab"]["cutoff"])
  nr = int(model["tab"]["nr"])
  rng = random.Random(case["style"])
  ctx.cls("route:" + route)
  refs = []
  for a, b, node in model["pair"]:
    n2 = spec.wrap_potable(node) if groute == "potable" else node
    refs.append(oracle.ValueOracle(M, n2, analytic=spec.all_analytic(node) and model.get("api_results") != "int_when_whole"))   # that wrapper offers no derivatives
    for k in spec.node_kinds(node):
      ctx.cls("kind:" + k)

  # --- domain pre-screen on the reference (cases outside every form's domain are not judged)
  N = nr - 1
  dr = oracle.grid(cutoff, N)
  rows = oracle.sample_rows(N, rng, 24 if nr <= 400 else 40)
  if case.get("exact_boundary"):
    ctx.cls("exact_boundary_on_row:" + case["exact_boundary"])
  if case.get("near_row_boundary"):
    ctx.cls("near_row_boundary:" + case["near_row_boundary"])
  if case.get("root_on_grid"):
    rows = sorted(set(rows + [case["root_on_grid"] - 1]))
    ctx.cls("root_on_grid")
    ctx.cls("root_on_grid:" + case.get("root_variant", "?"))
  try:
    for o in refs:
      for i in rows:
        v = o.value(R.F(dr * (i + 1)))
        if abs(v) > mp.mpf("1e150"):
          raise R.RefDomainError("huge")
      for i in (0, N - 1):
        o.deriv(R.F(dr * (i + 1)))
  except (R.RefDomainError, ZeroDivisionError, ValueError, OverflowError):
    ctx.count("out_of_domain")
    return

  # --- run the real code
  log = monitors.EventLog()
  pots = None
  del routes.NUMPY0D_CACHED[:]
  try:
    if route == "cli":
      text_in = emit.model_text(model, emit.Style(rng))
      res = routes.run_potable(["@IN", "@OUT"], text_in, stale_out=(len(text_in) % 2 == 1))
      if res["rc"] == 1 and "OverflowError" in res["err"]:
        raise OverflowError("potable subprocess: math range error")
      if res["rc"] != 0 or not res["exists"]:
        ctx.violation("cli_failed", "potable rc=%s stderr=%s" % (res["rc"], res["err"][-500:]), what="cli", exc="rc%s" % res["rc"])
        return
      text = res["data"].decode()
    else:
      with monitors.PotentialTrace(log):
        if model.get("api_variant") == "refit" and route.startswith("api"):
          import atsim.potentials as ap_
          model["api_refit"] = 1
          routes.refit_begin()
          try:
            ap_.writePotentials("LAMMPS", routes.pair_potentials_api(model), cutoff, nr, io.StringIO())
          except Exception:
            pass
          routes.refit_end()
          del log.events[:]
        if route == "api_class":
          tab = routes.pair_tab_api(model)
          if model.get("api_variant") == "amend_after_write":
            del log.events[:]     # the first (incomplete) write is not the one under observation
          pots = tab.potentials
          text = routes.write_to_real_file(tab.write) if model.get("api_variant") == "realfile" else routes.write_tab(tab)
          ctx.cls("api_variant:%s" % model.get("api_variant"))
        elif route == "api_legacy":
          import atsim.potentials as ap
          pots = routes.pair_potentials_api(model)
          out = routes.text_sink()
          ap.writePotentials("LAMMPS", tuple(pots) if model.get("api_variant") == "tuple" else pots, int(cutoff) if model.get("api_variant") == "int_cutoff" else cutoff, nr, out)
          text = out.getvalue()
        else:
          text_in = emit.model_text(model, emit.Style(rng))
          tab = routes.read_config(text_in)
          pots = tab.potentials
          if tab.nr != nr or tab.cutoff != cutoff:
            ctx.violation("grid_parse", "tabulation grid nr=%r cutoff=%r, file says %r %r" % (tab.nr, tab.cutoff, nr, cutoff), what="grid")
          text = routes.write_tab(tab)
  except OverflowError as e:
    if oracle.overflow_is_out_of_domain([(o, [dr * (i + 1) for i in range(N)]) for o in refs]):
      ctx.count("out_of_domain")
      return
    et, fn = exc_sig(e)
    ctx.violation("exception", "valid model failed: %s: %s" % (et, e), what="exception", exc=et, func=fn)
    return
  except Exception as e:
    et, fn = exc_sig(e)
    ctx.violation("exception", "valid model failed: %s: %s" % (et, e), what="exception", exc=et, func=fn)
    return
  ctx.count("executions")
  routes.refit_done()
  if str(model.get("api_results")).startswith("numpy0d"):
    ctx.cls("api_results:" + model["api_results"])
    if not routes.numpy0d_mutations(ctx):
      return

  # --- consumer-side read
  try:
    secs = readers.read_lammps_table(text)
  except readers.FormatError as e:
    ctx.violation("format", str(e), what="format")
    return
  if len(secs) != len(model["pair"]):
    ctx.violation("block_count", "%d blocks for %d potentials" % (len(secs), len(model["pair"])), what="block_count")
    return
  ctx.count("blocks", len(secs))
  any_force = False
  for idx, (sec, (a, b, node), o) in enumerate(zip(secs, model["pair"], refs)):
    if sec["keyword"] not in ("%s-%s" % (a, b), "%s-%s" % tuple(sorted([a, b]))):
      ctx.violation("title", "block %d titled %r for potential %s-%s" % (idx, sec["keyword"], a, b), what="title")
    if sec["N"] != N:
      ctx.violation("header_N", "header N=%d, expected nr-1=%d" % (sec["N"], N), what="header_N")
    if len(sec["rows"]) != N:
      ctx.violation("row_count", "%d rows, expected %d" % (len(sec["rows"]), N), what="row_count")
      continue
    oracle.check_token(ctx, "header_lo", sec["lo_tok"], R.F(dr), 0, rel=1e-12, where="block %d" % idx)
    oracle.check_token(ctx, "header_hi", sec["hi_tok"], R.F(cutoff), 0, rel=1e-12, where="block %d" % idx)
    # every row: numbering and separation
    for i, row in enumerate(sec["rows"]):
      if row[0] != str(i + 1):
        ctx.violation("row_index", "row %d numbered %r" % (i + 1, row[0]), what="row_index")
        break
      ok, diff, tol = R.close(float(row[1]), R.F(dr * (i + 1)), q=R.token_quantum(row[1]), rel=1e-12)
      if not ok:
        ctx.violation("row_r", "row %d r=%s expected %s" % (i + 1, row[1], float(dr * (i + 1))), what="row_r")
        break
    ctx.count("rows_structural", N)
    # sampled rows: energy and force
    for i in rows:
      r = R.F(dr * (i + 1))
      row = sec["rows"][i]
      where = "block %d (%s-%s) row %d r=%s route=%s" % (idx, a, b, i + 1, row[1], route)
      oracle.check_value(ctx, "energy", row[2], o, r, where=where, fmt="lammps", strict=bool(case.get("exact_boundary")) or (i + 1) in case.get("strict_rows", ()))
      if oracle.on_break(r, o.breaks) or ((not o.analytic) and oracle.near_break(r, o.breaks)):
        ctx.count("force_rows_skipped_at_breakpoint")
        continue
      f_ref = -o.deriv(r)
      if not (abs(f_ref) <= 1e-6):
        any_force = True
      slack = 0 if o.analytic else o.num_deriv_slack(r)
      oracle.check_token(ctx, "force", row[3], f_ref, o.dscale(r), rel=1e-8, abs_=slack, where=where, mag=o.dmag(r), fmt="lammps")
      ctx.count("force_analytic" if o.analytic else "force_numeric_fallback")
  ctx.nontrivial(any_force)

  # --- exactly-once evaluation trace (API and in-process potable routes)
  if pots is not None:
    ev = log.events
    pos = 0
    ok = True
    for pot, sec in zip(pots, secs):
      pid = id(pot)
      for i in range(N):
        want_r = float(sec["rows"][i][1])
        for kind in ("energy", "force"):
          if pos >= len(ev) or ev[pos][0] != pid or ev[pos][1] != kind or abs(ev[pos][2] - want_r) > 0.6e-8:
            ok = False
            break
          pos += 1
        if not ok:
          break
      if not ok:
        break
    if ok and pos != len(ev):
      ok = False
    if ok:
      # the energy and the force of a row are evaluated at the very same double (a multi-range potential with a range
      # start between two different roundings of the row's separation would otherwise get energy and force of two ranges)
      for j in range(0, len(ev) - 1, 2):
        if ev[j][2] != ev[j + 1][2]:
          ctx.violation("trace", "row evaluated at two different separations: energy at %r, force at %r" % (ev[j][2], ev[j + 1][2]), what="trace", mech="energy_force_separations_differ")
          break
      ctx.count("energy_force_same_separation_rows", len(ev) // 2)
    if not ok:
      ctx.violation("trace", "evaluation trace is not exactly one energy+force per emitted row, in row order (event %d of %d)" % (pos, len(ev)), what="trace")
    ctx.count("trace_events_checked", pos)

TECHNIQUE = "runtime monitoring: consumer-side reader of the emitted bytes vs independent mpmath reference model; exactly-once evaluation trace on Potential.energy/force"
LEVEL_TEXT = ("Exploration: the real writers (tabulation class, writePotentials, potable in-process and CLI) are run on seeded random "
              "models; every emitted file is parsed by a LAMMPS-rule reader and each block header, row index, separation, sampled "
              "energies and forces are compared with a 40-digit reference of the same model; a class-level trace on Potential.energy/force "
              "must show exactly one energy+force evaluation per emitted row in row order. Holds on the executions observed, not a proof.")
LEVEL_NOTE = "Trusted: mpmath, scipy FITPACK spline construction, the reader's transcription of LAMMPS' pair_style table rules, tolerance model of DESIGN.md 3.5."
DESIGN_REF = "DESIGN.md section 4, C01"
