"""C14 - --override-item / --add-item / --remove-item equal editing the file by hand (DESIGN.md section 4, C14)."""
import copy
import io
import random
import re

import emit
import readers
import routes
import spec
from harness import exc_sig

PROPERTY_ID = "C14"
LEVEL = "exploration"
RULE = ("seeded pair / EAM / FS / ADP models x random sequences of 0-6 override/add/remove operations on every section and key ([Tabulation], "
        "[Pair], [EAM-*], [Potential-Form], [Species], [Table-Form:*] through the API), with whitespace variants of the keys ('A - B', "
        "'f(r, A)', 'A -> B'), repeated overrides of one key, several options of each kind, removal of the last key of a section, operations "
        "on missing items and additions of existing ones; through the potable command line (main() in-process and subprocess) and "
        "ConfigParser(overrides=, additional=); compared with tabulating the file edited by a reference INI editor, and with the expected "
        "listing for --list-items / --item-value. Non-trivial: >= 1 operation that changes the file; distinct = canonical JSON of (model, ops, route).")
ASSUMPTIONS = ["order of application: overrides (a later override of the same item wins), then removals, then additions; sequences in which one item is "
               "both overridden/removed and added are not generated (their hand-edit order is ambiguous)",
               "removing the last key of a section is accepted under either reading (empty section kept or dropped)"]
ANCHORS = ["_config_parser.py:ConfigParser._init_config_parser", "potable/__init__.py:_create_override_tuple", "potable/__init__.py:_make_config_parser",
           "_query_actions.py:_list_items", "_query_actions.py:action_item_value", "_config_parser.py:_RawConfigParser.optionxform"]
MIN_NONTRIVIAL = {"quick": 60, "thorough": 700}
MIN_COUNTERS = {"differentials": 150, "listings_checked": 15, "invalid_ops_checked": 15}
TECHNIQUE = "runtime monitoring: CLI/API edit operations vs reference INI editor byte differential; listing multiset comparison"
LEVEL_TEXT = ("Exploration: the real CLI and ConfigParser(overrides=, additional=) are run with seeded operation sequences; the output must be byte-identical "
              "to tabulating the file edited by an independent reference editor (or both must be configuration errors); invalid operations must be "
              "configuration errors; --list-items must print exactly the items of the edited file, each once, and --item-value their values.")
LEVEL_NOTE = "Trusted: the reference INI editor (key comparison after removing whitespace) and emit.items_text."
DESIGN_REF = "DESIGN.md section 4, C14"


def norm(k):
  return re.sub(r"\s+", "", k)


def norm_blank(k):
  return re.sub(r"[ \t]+", "", k.strip())


def ws_variant(rng, key):
  """Whitespace variant of a key that the property says must still match."""
  c_ = rng.random()
  if c_ < 0.08:
    # an item list read from a file with readlines() / CRLF line ends: the key carries the line break
    return rng.choice([key + "\r", key + "\n", key + " \r\n", "\n" + key, key + "\x0c"])
  if c_ < 0.5:
    return key
  out = ""
  for ch in key:
    if ch in "-,(>" and rng.random() < 0.6:
      out += rng.choice([" " + ch, ch + " ", " " + ch + " "])
    else:
      out += ch
  return out.replace("- >", "->").replace("-  >", "->")


def gen_model(rng, i):
  kind = ["pair", "eam", "fs", "adp", "pair"][i % 5]
  if kind == "pair":
    t = ["LAMMPS", "DLPOLY", "GULP", "excel", "DL_POLY"][(i // 5) % 5]
    nr = 8 if "POLY" in t else rng.choice([3, 5, 9])
    return spec.gen_pair_model(rng, "potable", target=t, reg0=True, depth=1, nr_choices=[nr], npots=rng.choice([1, 2, 3, 4]))
  t = {"eam": ["setfl", "DL_POLY_EAM", "excel_eam", "lammps_eam_alloy"][(i // 5) % 4], "fs": ["setfl_fs", "DL_POLY_EAM_fs", "excel_eam_fs"][(i // 5) % 3], "adp": "eam_adp"}[kind]
  return spec.gen_eam_model(rng, kind, "potable", target=t, depth=1, grids={"nr": rng.choice([3, 5, 9]), "nrho": rng.choice([2, 3, 5])},
                            nspecies=rng.choice([1, 2, 3]))


def new_value(rng, section, key, model, old):
  if section == "Tabulation":
    k = norm(key)
    if k in ("nr", "nrho"):
      v = int(old) + rng.choice([1, 2, 4])
      if "POLY" in model["target"] and "EAM" not in model["target"] and k == "nr":
        v = int(old) + 4
      return str(v)
    if k in ("cutoff", "cutoff_rho", "dr", "drho"):
      return spec.fnum(round(float(old) * rng.choice([0.5, 1.25, 2.0]), 4))
    return old
  if section == "Potential-Form":
    rname = key[key.index("(") + 1:].split(",")[0].split(")")[0].strip()
    if rng.random() < 0.5:   # a value that itself contains '='
      return "if(%s <= %s, %s * 2.0, 1.5)" % (rname, spec.fnum(spec.rfloat(rng, 0.5, 3.0)), rname)
    return "(%s * %s) + %s" % (rname, spec.fnum(spec.rfloat(rng, 0.1, 2.0)), spec.fnum(spec.rfloat(rng, -1.0, 1.0)))
  if section == "Species":
    prop = key.split(".", 1)[1].strip()
    if prop == "lattice_type":
      return rng.choice(spec.LATTICES)
    if prop == "atomic_number":
      return str(rng.randint(1, 100))
    return spec.fnum(spec.rfloat(rng, 1.0, 200.0, 2))
  if section.startswith("Table-Form"):
    return old
  return rng.choice(["as.constant %s" % spec.fnum(spec.rfloat(rng, -3, 3)), "as.polynomial %s %s" % (spec.fnum(spec.rfloat(rng, -1, 1)), spec.fnum(spec.rfloat(rng, -1, 1))),
                     "sum(as.constant 1.5, as.polynomial 0.0 %s)" % spec.fnum(spec.rfloat(rng, 0.1, 2))])


def gen_ops(rng, model, items, route):
  ops = []
  flat = [(s, k, v) for s, its in items for k, v in its]
  touched = set()
  n = rng.choice([0, 1, 1, 2, 2, 3, 4, 6])
  # the same key name in two sections (a species label under [EAM-Embed] and [EAM-Density], a note named
  # like an option, ...) edited in ONE invocation: items are identified by (section, key), not by key alone
  bykey = {}
  for s, k, v in flat:
    if not s.startswith("Table-Form"):
      bykey.setdefault(norm(k), []).append((s, k, v))
  shared = [v for v in bykey.values() if len(set(x[0] for x in v)) >= 2]
  if shared and rng.random() < 0.5:
    (s1, k1, v1), (s2, k2, v2) = rng.sample(rng.choice(shared), 2)
    ops.append({"op": "override", "section": s1, "key": ws_variant(rng, k1), "value": new_value(rng, s1, k1, model, v1)})
    if rng.random() < 0.6:
      ops.append({"op": "override", "section": s2, "key": ws_variant(rng, k2), "value": new_value(rng, s2, k2, model, v2)})
    else:
      ops.append({"op": "remove", "section": s2, "key": ws_variant(rng, k2)})
    touched.update([(s1, norm(k1)), (s2, norm(k2))])
  elif flat and rng.random() < 0.2:
    # an orphan-section item named like an existing key, added and removed/overridden elsewhere in one go
    s1, k1, v1 = rng.choice([x for x in flat if not x[0].startswith("Table-Form")] or flat)
    if not s1.startswith("Table-Form"):
      ops.append({"op": "override", "section": s1, "key": k1, "value": new_value(rng, s1, k1, model, v1)})
      ops.append({"op": "add", "section": "Notes", "key": norm(k1), "value": "same key name in another section"})
      touched.update([(s1, norm(k1)), ("Notes", norm(k1))])
  # removal of every key of a small section (incl. the last one): the section itself then disappears or stays empty
  small = [(s_, its) for s_, its in items if 1 <= len(its) <= 2 and not s_.startswith("Table-Form") and s_ != "Tabulation"]
  if small and rng.random() < 0.25:
    s_, its = rng.choice(small)
    for k_, v_ in its:
      if (s_, norm(k_)) not in touched:
        ops.append({"op": "remove", "section": s_, "key": ws_variant(rng, k_)})
        touched.add((s_, norm(k_)))
  for _ in range(n):
    c = rng.random()
    if c < 0.45 and flat:
      s, k, v = rng.choice(flat)
      if (s, norm(k)) in touched and rng.random() < 0.5:
        continue
      if s.startswith("Table-Form") and route != "api" and rng.random() < 0.7:
        continue
      ops.append({"op": "override", "section": s, "key": ws_variant(rng, k), "value": new_value(rng, s, k, model, v)})
      touched.add((s, norm(k)))
      if rng.random() < 0.2:   # repeated override of one key: the later one wins
        ops.append({"op": "override", "section": s, "key": ws_variant(rng, k), "value": new_value(rng, s, k, model, v)})
        if rng.random() < 0.6:
          # ... also when the spellings alternate (A, B, A: the third is the last on the command line), possibly
          # with another item's override in between
          if rng.random() < 0.4 and flat:
            s3, k3, v3 = rng.choice(flat)
            if (s3, norm(k3)) not in touched and not s3.startswith("Table-Form"):
              ops.append({"op": "override", "section": s3, "key": k3, "value": new_value(rng, s3, k3, model, v3)})
              touched.add((s3, norm(k3)))
          first = [o for o in ops if o["op"] == "override" and o["section"] == s and norm(o["key"]) == norm(k)][0]
          ops.append({"op": "override", "section": s, "key": first["key"], "value": new_value(rng, s, k, model, v)})
    elif c < 0.65 and flat:
      s, k, v = rng.choice(flat)
      if s.startswith("Table-Form") and route != "api":
        continue
      if (s, norm(k)) in touched:
        continue
      ops.append({"op": "remove", "section": s, "key": ws_variant(rng, k)})
      touched.add((s, norm(k)))
    elif c < 0.9:
      which = rng.choice(["pair", "tab", "species", "orphan", "existing"])
      if which == "pair":
        a, b = spec.label(rng, real=0.3), spec.label(rng, real=0.3)
        key = "%s-%s" % (a, b)
        sec = "Pair"
        if any(norm(k) in (key, "%s-%s" % (b, a)) for s, k, v in flat if s == "Pair") or (sec, key) in touched:
          continue
        ops.append({"op": "add", "section": sec, "key": ws_variant(rng, key), "value": "as.constant %s" % spec.fnum(spec.rfloat(rng, -2, 2))})
        touched.add((sec, key))
        if rng.random() < 0.25:
          # the same new item added twice in one invocation (other spelling / reversed): the second one "already exists"
          k2 = rng.choice([key, key.replace("-", " - "), key.replace("-", "- "), "%s-%s" % (b, a)])
          ops.append({"op": "add", "section": sec, "key": k2, "value": "as.constant %s" % spec.fnum(spec.rfloat(rng, 3, 5))})
      elif which == "tab":
        have = [norm(k) for s, k, v in flat if s == "Tabulation"]
        cand = [x for x in ("dr", "nrho", "cutoff_rho", "drho") if x not in have and ("Tabulation", x) not in touched]
        if not cand:
          continue
        k = rng.choice(cand)
        ops.append({"op": "add", "section": "Tabulation", "key": k, "value": {"dr": "0.25", "nrho": "4", "cutoff_rho": "7.5", "drho": "0.5"}[k]})
        touched.add(("Tabulation", k))
      elif which == "species":
        spn = rng.choice(spec.ELEMENTS)
        key = "%s.%s" % (spn, rng.choice(["atomic_mass", "lattice_constant", "charge"]))
        if any(norm(k) == key for s, k, v in flat if s == "Species") or ("Species", key) in touched:
          continue
        ops.append({"op": "add", "section": "Species", "key": key, "value": spec.fnum(spec.rfloat(rng, 1, 100, 2))})
        touched.add(("Species", key))
      elif which == "orphan":
        key = "note%d" % rng.randint(0, 9)
        if ("Notes", key) in touched:
          continue
        ops.append({"op": "add", "section": "Notes", "key": key, "value": rng.choice(["free text %d", "a=b=%d", "x : y %d"]) % rng.randint(0, 99)})
        touched.add(("Notes", key))
      elif flat:   # adding an item that already exists must be refused
        s, k, v = rng.choice(flat)
        if s.startswith("Table-Form") and route != "api":
          continue
        if (s, norm(k)) in touched:
          continue
        ops.append({"op": "add", "section": s, "key": ws_variant(rng, k), "value": v})
        touched.add((s, norm(k)))
    else:   # operation on a missing item
      s = rng.choice(["Pair", "Tabulation", "Species", "EAM-Embed", "Nowhere"])
      k = rng.choice(["Qq-Qq", "missing", "Qq.atomic_mass", "Qq"])
      ops.append({"op": rng.choice(["override", "remove"]), "section": s, "key": k, "value": "as.constant 1"})
  # the option written the way the line looks in a file: 'SECTION:key = value' - blanks around the value mean as little
  # as they do in the file; and a value a file could not hold either (a stray '$') is a configuration error, not a crash
  for o in ops:
    if o["op"] in ("override", "add") and o.get("value") is not None and not o["section"].startswith("Table-Form"):
      c = rng.random()
      if c < 0.12:
        o["value"] = rng.choice([" ", "  ", "\t"]) + o["value"]
      elif c < 0.2:
        o["value"] = o["value"] + rng.choice([" ", "   "])
      elif c < 0.23:
        o["value"] = o["value"] + rng.choice([" $", " $5", " ${", " ${nosuch}"])
  return ops


def gen_cases(rng, tier):
  n = 190 if tier == "quick" else 2600
  cases = []
  for i in range(n):
    m = gen_model(rng, i)
    route = "cli" if i % 16 == 5 else rng.choice(["main", "main", "api"])
    ops = gen_ops(rng, m, emit.model_items(m), route)
    if i % 19 == 7:
      # one item overridden three times with alternating spellings of its key (and nothing else that could fail)
      route = rng.choice(["main", "main", "cli", "api"])
      items0 = emit.model_items(m)
      cand = [(s_, k_) for s_, its in items0 for k_, v_ in its if s_ in ("Pair", "EAM-Density", "EAM-Embed") and ("-" in k_)]
      if cand:
        s_, k_ = rng.choice(cand)
        alt = k_.replace("-", rng.choice([" -", "- ", " - "]), 1).replace("- >", "->")
        if "->" in k_:
          alt = k_.replace("->", rng.choice([" ->", "-> ", " -> "]))
        a, b = (k_, alt) if rng.random() < 0.5 else (alt, k_)
        ops = [{"op": "override", "section": s_, "key": kk, "value": "as.constant %s" % spec.fnum(spec.rfloat(rng, 0.5, 9.0))} for kk in (a, b, a)]
    case = {"model": m, "ops": ops, "route": route, "listing": (i % 2 == 1 and route != "api"), "options_first": i % 6 == 1}
    if route == "main" and i % 5 == 2:
      # feature interaction: the same invocation also filters species and the file uses [Variables] placeholders
      sp = []
      for key in ("pair", "embed", "density"):
        for ent in m.get(key) or []:
          for x in ent[:-1]:
            if x not in sp:
              sp.append(x)
      case["combined"] = {"S": rng.sample(sp, rng.randint(1, len(sp))), "exclude": rng.random() < 0.5, "tseed": rng.randrange(1 << 30)}
      case["listing"] = False
    if i % 31 == 9:
      # a key that itself holds a ':' (a species label such as 'Fe:oct' can only arrive through --add-item / additional=,
      # no file can spell it): the command line and the API, given the same (section, key, value), must agree
      a_ = spec.label(rng, [], 1.0, 3)
      key = rng.choice(["%s:oct-%s" % (a_, a_), "%s-%s:x" % (a_, a_), "%s:a-%s:b" % (a_, a_)])
      case = {"model": m, "ops": [{"op": "add", "section": "Pair", "key": key, "value": "as.constant %s" % spec.fnum(spec.rfloat(rng, 1, 9))}],
              "route": "main", "listing": False, "colon_key": True}
      cases.append(case)
      continue
    if i % 23 == 13:
      # an item added into a section whose NAME differs from an existing section's only in white space ('Pair ' next to
      # [Pair]): the file edited by hand would hold two look-alike sections, which is refused
      names0 = [s_ for s_, _ in emit.model_items(m)]
      sec_ = rng.choice([x for x in ("Pair", "EAM-Embed", "EAM-Density", "Tabulation") if x in names0] or ["Pair"])
      ops = [{"op": "add", "section": rng.choice([sec_ + " ", " " + sec_, sec_ + "\t", sec_[:2] + " " + sec_[2:]]), "key": {"Pair": "Qq-Qq", "Tabulation": "comment"}.get(sec_, "Qq"), "value": "as.constant 2.0"}]
      route = ["main", "api", "cli"][(i // 23) % 3]
      case = {"model": m, "ops": ops, "route": route, "listing": False, "options_first": False, "lookalike_section": 1}
    if i % 17 == 11:
      # a [Variables] section holding exactly ONE entry, which a definition uses: removing it (the default section of the
      # parser cannot be dropped like another one) leaves the placeholder unresolvable, overriding it changes the table
      items0 = emit.model_items(m)
      cand = [(si, ki) for si, (s_, its) in enumerate(items0) for ki, (k_, v_) in enumerate(its) if s_ in ("Pair", "EAM-Density", "EAM-Embed") and re.search(r"(?<![\w.])\d+\.\d+(?![\w.])", v_)]
      if cand and not any(s_ == "Variables" for s_, _ in items0):
        si, ki = rng.choice(cand)
        s_, its = items0[si]
        k_, v_ = its[ki]
        mm = list(re.finditer(r"(?<![\w.])\d+\.\d+(?![\w.])", v_))[-1]
        its2 = list(its)
        nested = (i // 17) % 2 == 1
        its2[ki] = (k_, v_[:mm.start()] + ("${wrapvar}" if nested else "${onlyvar}") + v_[mm.end():])
        # nested: the definition uses a variable that is itself written in terms of the one operated on
        vars_ = [["onlyvar", mm.group(0)]] + ([["wrapvar", "${onlyvar}"]] if nested else [])
        items1 = [["Variables", vars_]] + [[a_, [list(x) for x in (its2 if j == si else b_)]] for j, (a_, b_) in enumerate(items0)]
        opk = ["remove", "override", "remove"][(i // 17) % 3]
        ops = [{"op": opk, "section": "Variables", "key": "onlyvar", "value": "2.75"}]
        route = ["main", "api", "cli"][(i // 17) % 3]
        case = {"model": m, "ops": ops, "route": route, "listing": False, "options_first": False, "items_override": items1, "single_variable": 2 if nested else 1}
    if i % 13 == 6:
      # a key pasted from a web page or a PDF: white space other than blank / tab INSIDE it (no-break space, thin space,
      # form feed).  The file tabulates as ever; an operation addressed to the key exactly as the file spells it must find
      # that line, and the plain spelling added next to it is what it would be in the file
      items0 = emit.model_items(m)
      cand = [(s_, k_) for s_, its in items0 for k_, v_ in its if s_ in ("Pair", "EAM-Density", "EAM-Embed", "EAM-ADP-Dipole") and ("-" in k_)]
      if cand:
        s_, k_ = rng.choice(cand)
        w_ = rng.choice([u"\u00a0", u"\u2009", u"\x0c", u"\u3000", u"\u00a0"])
        sep_ = "->" if "->" in k_ else "-"
        newk = k_.replace(sep_, rng.choice([w_ + sep_ + w_, sep_ + w_, w_ + sep_]), 1)
        opk = rng.choice(["override", "override", "remove"])
        ops = [{"op": opk, "section": s_, "key": newk, "value": "as.constant %s" % spec.fnum(spec.rfloat(rng, 0.5, 9.0))}]
        route = rng.choice(["main", "main", "cli", "api"])
        case = {"model": m, "ops": ops, "route": route, "listing": False, "options_first": False, "respell": [s_, k_, newk]}
    if i % 13 == 10:
      # two DIFFERENT items of one section whose keys differ only by white space other than blank / tab inside a label
      # ('Mg\x0cA-O' next to 'MgA-O'), both addressed in one command: each operation means its own line, as in the file
      # (seeded change C14r10 merged the two operations into one)
      items0 = emit.model_items(m)
      cand = [(si_, k_) for si_, (s_, its) in enumerate(items0) for k_, v_ in its if s_ == "Pair" and "-" in k_]
      if cand:
        si_, k_ = cand[0]
        b_ = k_.split("-", 1)[1]
        w_ = [u"\x0c", u"\u00a0", u"\x0b", u"\u2009"][(i // 13) % 4]
        ka, kb = "Qx%sa-%s" % (w_, b_), "Qxa-%s" % b_
        if (i // 13) % 2:
          ka, kb = kb, ka
        items1 = [[s_, [list(x) for x in its] + ([[ka, "as.buck 1100.0 0.3 0.0"], [kb, "as.buck 1200.0 0.3 0.0"]] if j == si_ else [])] for j, (s_, its) in enumerate(items0)]
        if (i // 13) % 3 == 2:
          ops = [{"op": "remove", "section": "Pair", "key": ka, "value": None}, {"op": "remove", "section": "Pair", "key": kb, "value": None}]
        else:
          ops = [{"op": "override", "section": "Pair", "key": ka, "value": "as.buck 2100.0 0.25 0.0"}, {"op": "override", "section": "Pair", "key": kb, "value": "as.buck 2200.0 0.35 0.0"}]
        route = ["main", "cli", "main", "api"][(i // 13) % 4]
        case = {"model": m, "ops": ops, "route": route, "listing": True, "options_first": False, "items_override": items1, "twin_keys": 1}
    if route in ("main", "api") and i % 5 == 4 and not case.get("respell") and not case.get("twin_keys") and not case.get("single_variable") and not case.get("lookalike_section"):
      # feature interaction: operations that address [Variables] itself, and an item written as ${VAR} that is
      # overridden with exactly the text it currently expands to ("frozen") while VAR is changed or removed
      case["freeze"] = {"tseed": rng.randrange(1 << 30), "force_last_key": (i // 5) % 2 == 0, "clear_variables": (i // 5) % 4 == 1}
      case["listing"] = False
      case.pop("combined", None)
    cases.append(case)
  return cases


def case_items(case):
  """The model's items, with one key re-spelled when the case says so."""
  if case.get("items_override"):
    return [(s_, [(k_, v_) for k_, v_ in its]) for s_, its in case["items_override"]]
  items = emit.model_items(case["model"])
  rs = case.get("respell")
  if rs:
    items = [(s_, [((rs[2], v_) if (s_ == rs[0] and k_ == rs[1]) else (k_, v_)) for k_, v_ in its]) for s_, its in items]
  return items


def reference_edit(items, ops, drop_empty):
  """-> (edited items | None, error or None).  Overrides (later wins), then removals, then additions."""
  secs = [(s, list(its)) for s, its in items]

  def find(sec, key):
    for si, (s, its) in enumerate(secs):
      if s == sec:
        for ki, (k, v) in enumerate(its):      # blanks and tabs inside a key mean nothing; other white space is part of it
          if norm_blank(k) == norm_blank(key):
            return si, ki
        for ki, (k, v) in enumerate(its):
          if norm(k) == norm(key):
            return si, ki
    return None

  ovs = [o for o in ops if o["op"] == "override"]
  rms = [o for o in ops if o["op"] == "remove"]
  adds = [o for o in ops if o["op"] == "add"]
  for o in ovs:
    pos = find(o["section"], o["key"])
    if pos is None:
      return None, "override of missing item %s:%s" % (o["section"], o["key"])
    si, ki = pos
    secs[si][1][ki] = (secs[si][1][ki][0], o["value"])
  for o in rms:
    pos = find(o["section"], o["key"])
    if pos is None:
      return None, "removal of missing item %s:%s" % (o["section"], o["key"])
    si, ki = pos
    del secs[si][1][ki]
    if drop_empty and not secs[si][1]:
      del secs[si]
  for o in adds:
    if find(o["section"], o["key"]) is not None:
      return None, "addition of existing item %s:%s" % (o["section"], o["key"])
    for s, its in secs:
      if s == o["section"]:
        its.append((norm(o["key"]), o["value"]))
        break
    else:
      secs.append((o["section"], [(norm(o["key"]), o["value"])]))
  return secs, None


def outcome(res):
  if res["rc"] == 0 and res["exists"]:
    return ("ok", res["data"])
  if res["rc"] == 2 and "configuration error" in res["err"]:
    return ("config_error", res["err"].strip().split("\n")[-1][:200])
  return ("internal", "rc=%s %s" % (res["rc"], res["err"][-300:]))


def api_outcome(text, ops=None):
  from atsim.potentials.config import ConfigParser, Configuration, ConfigParserOverrideTuple as T
  from atsim.potentials.config._common import ConfigurationException
  try:
    if ops is None:
      cp = ConfigParser(io.StringIO(text))
    else:
      ov = [T(o["section"], o["key"], o["value"]) for o in ops if o["op"] == "override"]
      ov += [T(o["section"], o["key"], None) for o in ops if o["op"] == "remove"]
      ad = [T(o["section"], o["key"], o["value"]) for o in ops if o["op"] == "add"]
      cp = ConfigParser(io.StringIO(text), overrides=ov, additional=ad)
    out = routes.write_tab(Configuration().read_from_parser(cp))
    return ("ok", out if isinstance(out, bytes) else out.encode())
  except ConfigurationException as e:
    return ("config_error", str(e)[:200])
  except Exception as e:
    et, fn = exc_sig(e)
    return ("internal", "%s %s in %s" % (et, e, fn))


def cli_args(ops):
  args = []
  for o in ops:
    if o["op"] == "override":
      args += ["--override-item", "%s:%s=%s" % (o["section"], o["key"], o["value"])]
    elif o["op"] == "remove":
      args += ["--remove-item", "%s:%s" % (o["section"], o["key"])]
    else:
      args += ["--add-item", "%s:%s=%s" % (o["section"], o["key"], o["value"])]
  return args


def same_output(target, a, b):
  if a[:2] == b"PK" and b[:2] == b"PK":   # xlsx containers embed timestamps: compare by cell content
    return readers.read_xlsx(a)["sheets"] == readers.read_xlsx(b)["sheets"]
  return a == b


def filter_items(items, S, exclude):
  """Delete every pair / embed / density entry that mentions a species outside S (include) or in S (exclude)."""
  out = []
  for s_, its in items:
    if s_ not in ("Pair", "EAM-Embed", "EAM-Density"):
      out.append((s_, list(its)))
      continue
    keep = []
    for k, v in its:
      kk = norm(k)
      spp = kk.split("->") if "->" in kk else (kk.split("-") if s_ == "Pair" else [kk])
      ok = (not any(x in S for x in spp)) if exclude else all(x in S for x in spp)
      if ok:
        keep.append((k, v))
    out.append((s_, keep))
  return out


def run_combined(case, ctx, items):
  """--override/--add/--remove + --include/--exclude-species on a file with [Variables] placeholders, in ONE
  invocation, against the file that was substituted, edited and pruned by hand."""
  import random as _r
  from checks import c15
  m, ops = case["model"], case["ops"]
  comb = case["combined"]
  ctx.cls("combined:filter+edit+variables")
  rng = _r.Random(comb["tseed"])
  templ, subst, variables, unused, used = c15.template(items, rng)
  # placeholders only in items no operation touches (an override replaces the whole value anyway)
  touched = set((o["section"], norm(o["key"])) for o in ops)
  templ = [(s_, [(k, (v if (s_, norm(k)) not in touched else dict(dict(subst)[s_])[k])) for k, v in its]) for s_, its in templ]
  at_end = rng.random() < 0.4
  t_templ = c15.text_with_vars(templ, variables + unused, rng, at_end=at_end)
  # the reference is the TEMPLATED file edited by hand (an operation may touch an item that a ${SECTION:KEY}
  # placeholder elsewhere refers to: the hand-edited file then follows the new value / fails to substitute, too)
  e1, err = reference_edit(templ, ops, drop_empty=True)
  e2, _ = reference_edit(templ, ops, drop_empty=False)
  flag = "--exclude-species" if comb["exclude"] else "--include-species"
  got = outcome(routes.potable_main(["@IN", "@OUT"] + cli_args(ops) + [flag] + list(comb["S"]), t_templ))
  ctx.count("differentials")
  ctx.count("combined_invocations")
  mech = "section_name_with_colon_on_cli" if any(":" in o["section"] for o in ops) else "edit"
  if err is not None:
    if got[0] != "config_error":
      ctx.violation("invalid_op_not_rejected", "%s -> %s via combined invocation" % (err, got[0]), what="invalid_op_not_rejected", mech=mech)
    ctx.nontrivial(True)
    return
  ok = False
  wants = []
  for e in (e1, e2):
    w = outcome(routes.potable_main(["@IN", "@OUT"], c15.text_with_vars(filter_items(e, comb["S"], comb["exclude"]), variables + unused, rng, at_end=at_end)))
    wants.append(w)
    if got[0] == w[0] and (got[0] != "ok" or same_output(m["target"], got[1], w[1])):
      ok = True
  if got[0] == "internal" and any(w[0] == "internal" for w in wants):
    ok = True
  if not ok and got[0] != "ok":
    # domain: the edited file must be a valid model BEFORE pruning (an excluded entry whose placeholder lost its target is
    # a malformed file, not a model: potable reads every entry before it filters, the hand-pruned copy no longer has it)
    unpruned = outcome(routes.potable_main(["@IN", "@OUT"], c15.text_with_vars(e1, variables + unused, rng, at_end=at_end)))
    if unpruned[0] != "ok":
      ctx.count("combined_edited_file_invalid_before_pruning")
      return
  if not ok:
    ctx.violation("edit_differs" if mech != "edit" else "combined_differs", "ops %s + %s %s on a templated file: real -> %s (%s); templated file edited and pruned by hand -> %s" % (
      [(o["op"], o["section"], o["key"]) for o in ops], flag, comb["S"], got[0], str(got[1])[:150] if got[0] != "ok" else "%d bytes" % len(got[1]),
      [(w[0], str(w[1])[:100] if w[0] != "ok" else "%d bytes" % len(w[1])) for w in wants]), what=("edit_differs" if mech != "edit" else "combined_differs"), mech=mech)
    return
  ctx.nontrivial(True)


def run_freeze(case, ctx, items):
  """Operations on a templated file, decided against the same templated file edited by hand (as text)."""
  import random as _r
  from checks import c15
  m, route = case["model"], case["route"]
  rng = _r.Random(case["freeze"]["tseed"])
  ctx.cls("freeze:override_with_current_expansion+variable_edit")
  templ, subst, variables, unused, used = c15.template(items, rng)
  sub = {(s_, k): v for s_, its in subst for k, v in its}
  allvars = list(variables) + list(unused)
  if not allvars:
    ctx.count("freeze_without_variables")
    return
  full = [("Variables", [(n_, v_) for n_, v_ in allvars])] + [(s_, list(its)) for s_, its in templ]
  if rng.random() < 0.4:
    full = full[1:] + full[:1]
  ops = []
  templated = [(s_, k, tv) for s_, its in templ for k, tv in its if "${" in tv and not s_.startswith("Table-Form")]
  rng.shuffle(templated)
  for s_, k, tv in templated[:rng.choice([0, 1, 1, 2])]:
    names = re.findall(r"\$\{([^}:]+)\}", tv)
    ops.append({"op": "override", "section": s_, "key": k, "value": sub[(s_, k)]})      # freeze: same text as the expansion
    ctx.cls("frozen_item")
    if names:
      nm = rng.choice(names)
      old = dict(allvars).get(nm, "1.0")
      if rng.random() < 0.7:
        newv = spec.fnum(round(float(old) * 1.5 + 0.25, 4)) if NUMRE.fullmatch(old.strip()) else old
        ops.append({"op": "override", "section": "Variables", "key": nm, "value": newv})
        ctx.cls("variable_overridden_after_freeze")
      else:
        ops.append({"op": "remove", "section": "Variables", "key": nm})
        ctx.cls("variable_removed_after_freeze")
  # operations on variables alone (the items that use them must follow)
  for n_, v_ in rng.sample(allvars, min(len(allvars), rng.choice([0, 1, 1, 2]))):
    if any(o["section"] == "Variables" and o["key"] == n_ for o in ops):
      continue
    if NUMRE.fullmatch(v_.strip()) and rng.random() < 0.8:
      ops.append({"op": "override", "section": "Variables", "key": n_, "value": spec.fnum(round(float(v_) * 0.5 + 1.0, 4))})
      ctx.cls("variable_overridden")
    elif (n_, v_) in unused:
      ops.append({"op": "remove", "section": "Variables", "key": n_})
      ctx.cls("unused_variable_removed")
  if rng.random() < 0.3:
    ops.append({"op": "add", "section": "Variables", "key": "fresh_%d" % rng.randint(0, 99), "value": "2.5"})
    ctx.cls("variable_added")
  if case["freeze"].get("clear_variables"):
    # every item of [Variables] removed (the last one included): the section is then empty / gone, as in the file
    # edited by hand; items that still use a variable make both a configuration error
    ops = [o for o in ops if o["section"] != "Variables"]
    for n_, v_ in allvars:
      ops.append({"op": "remove", "section": "Variables", "key": n_})
    ctx.cls("every_variable_removed")
  # every key of a small section removed in a file that HAS a [Variables] section (the then-empty section must be
  # treated as in a file without one)
  small = [(s_, its) for s_, its in templ if 1 <= len(its) <= 2 and not s_.startswith("Table-Form") and s_ != "Tabulation"]
  if case["freeze"].get("force_last_key"):
    # deterministically: empty one of the sections whose absence is an error (so that the two readings are
    # distinguishable), whatever its size
    defn = [(s_, its) for s_, its in templ if s_ in ("Pair", "EAM-Embed", "EAM-Density", "EAM-ADP-Dipole", "EAM-ADP-Quadrupole") and its]
    if defn:
      small = [min(defn, key=lambda x: len(x[1]))]
      ops = [o for o in ops if o["section"] != small[0][0]]
  if small and (case["freeze"].get("force_last_key") or rng.random() < 0.45):
    s_, its = rng.choice(small)
    if not any(o["section"] == s_ for o in ops):
      for k_, v_ in its:
        ops.append({"op": "remove", "section": s_, "key": k_})
      ctx.cls("last_key_of_section_removed_with_variables_present")
  if not ops:
    ctx.count("freeze_without_ops")
    return
  rng.shuffle(ops)
  text = emit.items_text(full)
  e1, err = reference_edit(full, ops, drop_empty=True)
  e2, _ = reference_edit(full, ops, drop_empty=False)
  if route == "api":
    got = api_outcome(text, ops)
  else:
    got = outcome(routes.potable_main(["@IN", "@OUT"] + cli_args(ops), text))
  ctx.count("differentials")
  ctx.count("freeze_invocations")
  if err is not None:
    if got[0] != "config_error":
      ctx.violation("invalid_op_not_rejected", "%s -> %s via %s" % (err, got[0], route), what="invalid_op_not_rejected", mech="edit")
    return
  wants = []
  ok = False
  matches = []
  for e in (e1, e2):
    t2 = emit.items_text(e)
    w = api_outcome(t2) if route == "api" else outcome(routes.potable_main(["@IN", "@OUT"], t2))
    wants.append(w)
    hit = got[0] == w[0] and (got[0] != "ok" or same_output(m["target"], got[1], w[1]))
    matches.append(hit)
    if hit:
      ok = True
  if e1 != e2 and matches[0] != matches[1]:
    ctx.cls("last_key_removal_reading:" + ("section_dropped" if matches[0] else "empty_section_kept"))
  if got[0] == "internal" and any(w[0] == "internal" for w in wants):
    ok = True
  if not ok:
    ctx.violation("edit_differs", "ops %s on a templated file via %s: real -> %s (%s); templated file edited by hand -> %s" % (
      [(o["op"], o["section"], o["key"], o.get("value")) for o in ops], route, got[0], str(got[1])[:150] if got[0] != "ok" else "%d bytes" % len(got[1]),
      [(w[0], str(w[1])[:100] if w[0] != "ok" else "%d bytes" % len(w[1])) for w in wants]), what="edit_differs", mech="variables")
    return
  ctx.cls("agree:" + got[0])
  ctx.nontrivial(True)


NUMRE = re.compile(r"[-+]?(\d+\.?\d*|\.\d+)([eE][-+]?\d+)?")


def run_colon_key(case, ctx):
  m, ops = case["model"], case["ops"]
  text = emit.items_text(emit.model_items(m))
  ctx.cls("key_containing_colon_cli_vs_api")
  a = outcome(routes.potable_main(["@IN", "@OUT"] + cli_args(ops), text))
  b = api_outcome(text, ops)
  ctx.count("differentials")
  if a[0] != b[0] or (a[0] == "ok" and not same_output(m["target"], a[1], b[1])):
    ctx.violation("edit_differs", "--add-item %r: command line -> %s (%s), the same (section, key, value) through additional= -> %s (%s)" % (
      cli_args(ops)[1], a[0], str(a[1])[:120] if a[0] != "ok" else "%d bytes" % len(a[1]), b[0], str(b[1])[:120] if b[0] != "ok" else "%d bytes" % len(b[1])),
      what="edit_differs", mech="key_with_colon")
    return
  # and the added pair is really there (unless the target has no place for it)
  ctx.nontrivial(a[0] == "ok")


def run_case(case, ctx):
  if case.get("colon_key"):
    ctx.cls("route:main")
    return run_colon_key(case, ctx)
  m, ops, route = case["model"], case["ops"], case["route"]
  if case.get("freeze"):
    ctx.cls("route:" + route)
    return run_freeze(case, ctx, emit.model_items(m))
  ctx.cls("route:" + route)
  ctx.cls("target:" + m["target"])
  ctx.cls("nops:%d" % len(ops))
  if case.get("lookalike_section"):
    ctx.cls("item_added_into_a_lookalike_section")
  if case.get("respell"):
    ctx.cls("key_with_exotic_whitespace_inside")
  if case.get("twin_keys"):
    ctx.cls("two_keys_differing_by_exotic_whitespace_both_edited")
  if case.get("single_variable"):
    ctx.cls(("variable_used_through_another_variable_" if case["single_variable"] == 2 else "only_entry_of_variables_") + ops[0]["op"])
  for s_, its in case_items(case):
    rem = [o for o in ops if o["op"] == "remove" and o["section"] == s_]
    if its and len(rem) >= len(its):
      ctx.cls("last_key_of_section_removed")
  for o in ops:
    ctx.cls("op:%s:%s" % (o["op"], o["section"].split(":")[0]))
    if norm(o["key"]) != o["key"]:
      ctx.cls("key_with_whitespace")
  items = case_items(case)
  text = emit.items_text(items)
  colon = any(":" in o["section"] for o in ops)
  if case.get("combined"):
    return run_combined(case, ctx, items)
  # reference edits under both readings of "last key of a section removed"
  e1, err = reference_edit(items, ops, drop_empty=True)
  e2, _ = reference_edit(items, ops, drop_empty=False)
  runner = routes.run_potable if route == "cli" else routes.potable_main
  if route == "api":
    got = api_outcome(text, ops)
  else:
    got = outcome(runner(["@IN", "@OUT"] + cli_args(ops), text))
  ctx.count("differentials")
  mech = "section_name_with_colon_on_cli" if (colon and route != "api") else "edit"
  if route != "api" and ops and case.get("options_first"):
    # the order of the manual's synopsis and of its quick-start example: options first, then the file names
    res1 = runner(cli_args(ops) + ["@IN", "@OUT"], text)
    got1 = outcome(res1)
    ctx.count("options_first_invocations")
    if got1[0] != got[0] or (got[0] == "ok" and not same_output(m["target"], got1[1], got[1])):
      swallowed = "arguments are required" in res1["err"]
      ctx.violation("edit_differs", "options written BEFORE the file names (as in the manual's synopsis): %s (%s); the same options after the file names: %s" % (
        got1[0], res1["err"].strip().split("\n")[-1][:200], got[0]), what="edit_differs", mech="options_before_file_names" if swallowed else mech)
  if err is not None:
    ctx.count("invalid_ops_checked")
    ctx.cls("invalid:" + err.split(" item")[0])
    if got[0] != "config_error":
      ctx.violation("invalid_op_not_rejected", "%s -> %s (%s) via %s" % (err, got[0], str(got[1])[:200], route), what="invalid_op_not_rejected", mech=mech)
    ctx.nontrivial(True)
    return
  wants = []
  for e in (e1, e2):
    t2 = emit.items_text(e)
    w = api_outcome(t2) if route == "api" else outcome(runner(["@IN", "@OUT"], t2))
    wants.append(w)
    if e1 == e2:
      break
  ok = False
  matches = []
  for w in wants:
    hit = got[0] == w[0] and (got[0] != "ok" or same_output(m["target"], got[1], w[1]))
    matches.append(hit)
    if hit:
      ok = True
  if len(wants) == 2 and matches[0] != matches[1] and mech == "edit":      # (not where the command line cannot address the section at all)
    # the two readings of "the last key of a section was removed" are distinguishable here: note which one the code took
    # (cross_check demands that it is the same one in every case of the run)
    ctx.cls("last_key_removal_reading:" + ("section_dropped" if matches[0] else "empty_section_kept"))
  if any(w[0] == "internal" for w in wants) and got[0] == "internal":
    ctx.count("both_internal_error")
    ok = True
  if not ok:
    ctx.violation("edit_differs", "ops %s via %s: real -> %s (%s); hand-edited file -> %s" % (
      [(o["op"], o["section"], o["key"], o.get("value")) for o in ops], route, got[0], str(got[1])[:120] if got[0] != "ok" else "%d bytes" % len(got[1]),
      [(w[0], str(w[1])[:120] if w[0] != "ok" else "%d bytes" % len(w[1])) for w in wants]), what="edit_differs", mech=mech)
    return
  ctx.cls("agree:" + got[0])
  ctx.nontrivial(len(ops) >= 1)

  # ---- listing of the edited file
  if any("$" in (o.get("value") or "") for o in ops):
    ctx.count("listing_skipped_value_with_stray_dollar")   # such a value cannot be listed from the hand-edited file either
    return
  if case.get("listing") and not (colon and route != "api"):
    res = runner(["@IN", "--list-items"] + cli_args(ops), text)
    ctx.count("listings_checked")
    if res["rc"] != 0 and got[0] != "ok":
      # the edited file itself is a configuration error (already judged above): nothing to list
      ctx.count("listing_skipped_edit_is_config_error")
      return
    if res["rc"] != 0:
      ctx.violation("listing_failed", "--list-items rc=%s %s" % (res["rc"], res["err"][-200:]), what="listing_failed")
      return
    lines = [l for l in res["out"].split("\n") if l.strip()]
    # values may span lines: re-join continuation lines (those without SECTION:KEY= prefix)
    want = []
    hidden = 0
    for s, its in e1:
      for k, v in its:
        if s.startswith("Table-Form") or s == "Variables":
          hidden += 1
          continue
        want.append("%s:%s=%s" % (s, (norm_blank if case.get("twin_keys") else norm)(k), v.strip()))
    # (twin keys: white space other than blank / tab is what tells the two keys apart, so it is not folded away here)
    ws_ = r"[ \t]+" if case.get("twin_keys") else r"\s+"
    got_l = sorted(re.sub(ws_, " ", l.strip()) for l in lines)
    want_l = sorted(re.sub(ws_, " ", l.strip()) for l in want)
    if got_l != want_l:
      missing = [x for x in want_l if x not in got_l]
      extra = [x for x in got_l if x not in want_l]
      ctx.violation("listing", "--list-items differs from the items of the edited file: missing %s extra %s" % (missing[:3], extra[:3]), what="listing", mech="listing")
    if hidden:
      ctx.violation("listing", "%d items of [Table-Form:*] sections are not listed" % hidden, what="listing", mech="table_form_items_not_listed")
    # --item-value for one listed item
    if want:
      line = max(want, key=lambda l: len(l.split("=", 1)[1].split()))
      skey, val = line.split("=", 1)
      r2 = runner(["@IN", "--item-value", skey] + cli_args(ops), text)
      if r2["rc"] != 0 or re.sub(r"\s+", " ", r2["out"].strip()) != re.sub(r"\s+", " ", val.strip()):
        ctx.violation("item_value", "--item-value %s -> rc=%s %r expected %r" % (skey, r2["rc"], r2["out"].strip()[:100], val[:100]), what="item_value")


def cross_check(merged):
  """The reading of 'removing the last key of a section' (the section disappears / an empty section stays) is the
  code's choice, but it has to be ONE choice: the same for every model, with or without [Variables], on every route."""
  seen = {}
  for r in merged:
    for c in r["classes"]:
      if c.startswith("last_key_removal_reading:"):
        seen.setdefault(c.split(":", 1)[1], []).append(r["id"])
  if len(seen) >= 2:
    minority = min(seen, key=lambda k: len(seen[k]))
    return [(seen[minority][0], "inconsistent_last_key_removal", "removing the last key of a section %s in %d case(s) but %s in %d case(s) of this run" % (
      minority.replace("_", " "), len(seen[minority]), [k for k in seen if k != minority][0].replace("_", " "), sum(len(v) for k, v in seen.items() if k != minority)), {"what": "inconsistent_last_key_removal"})]
  return []
