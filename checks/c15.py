"""C15 - [Variables] substitution equals textual substitution and changes nothing else (DESIGN.md section 4, C15)."""
import copy
import random
import io
import re

import emit
import readers
import routes
import spec
from harness import exc_sig

PROPERTY_ID = "C15"
LEVEL = "exploration"
RULE = ("seeded pair / EAM / FS / ADP models for all 11 targets; a random subset of literals (numbers in [Tabulation], parameters of potential "
        "definitions, numbers inside [Potential-Form] formulas, [Table-Form] data snippets, [Species] values, whole definitions) is lifted into "
        "[Variables] and referenced as ${NAME}; some values are replaced by ${SECTION:KEY} cross-references; variables may reference other "
        "variables; unused variables are added, some named like options of other sections (nr, cutoff, target, x, xy, dr, Al, A-B, interpolation); "
        "the templated file, the substituted file and the plain file + unused variables only are tabulated and compared byte for byte (xlsx by "
        "cell content). Non-trivial: >= 1 placeholder actually referenced; distinct = canonical JSON of (model, template choices, route).")
ASSUMPTIONS = ["the substituted file is produced by the harness from the same item list by plain string replacement of each placeholder"]
ANCHORS = ["_config_parser.py:_RawConfigParser.get", "_config_parser.py:_RawConfigParser.options", "_config_parser.py:ConfigParser._check_for_duplicate_pairs",
           "_config_parser.py:ConfigParser._parse_params_section", "_config_parser.py:_TableFormSection._parse_section"]
MIN_NONTRIVIAL = {"quick": 60, "thorough": 700}
MIN_COUNTERS = {"differentials": 200, "placeholders_used": 200, "unused_variable_files": 60}
TECHNIQUE = "runtime monitoring: templated-file vs hand-substituted-file byte differential through the real parser and writers"
LEVEL_TEXT = ("Exploration: for each seeded model three files are driven through the real potable pipeline (in-process, main() and subprocess): the "
              "templated file with ${NAME} / ${SECTION:KEY} placeholders, the file with the placeholders substituted textually, and the plain file "
              "with only unused variables added; all outputs must be byte-identical (or all configuration errors).")
LEVEL_NOTE = "Trusted: the harness's textual substitution."
DESIGN_REF = "DESIGN.md section 4, C15"

NUM = re.compile(r"(?<![\w.])[-+]?\d+\.?\d*(?:[eE][-+]?\d+)?(?![\w.(])")
TRICKY = ["nr", "cutoff", "target", "x", "xy", "dr", "Al", "A-B", "interpolation", "nrho", "y", "Al.atomic_mass", "cutoff_rho", "O"]


RAW_FORMULAS = [
  "-1.5^2 + q*r",
  "q*exp(-r/0.35) - -2.5^2/(r+1)^6",
  "2*-1.5^3 + r^-0.5/(1+r)",
  "0 -3^2 + r*q - 1e-3*r^2",
  "q - -0.25^2*r + 3.5e+1/(r + 2)",
  "-2^r*1e-2 + q",
  "abs(-1.25)^2 - -1.25^2 + q*r",
  "q*r^2 -0.5^2*r + -4.0",
]


def gen_model(rng, i):
  kind = ["pair", "eam", "fs", "adp", "pair"][i % 5]
  if kind == "pair":
    t = ["LAMMPS", "DLPOLY", "GULP", "excel", "DL_POLY"][(i // 5) % 5]
    nr = 8 if "POLY" in t else rng.choice([3, 5, 9])
    return spec.gen_pair_model(rng, "potable", target=t, reg0=True, depth=2, nr_choices=[nr], npots=rng.choice([1, 2, 3]))
  t = {"eam": ["setfl", "DL_POLY_EAM", "excel_eam", "lammps_eam_alloy"][(i // 5) % 4], "fs": ["setfl_fs", "DL_POLY_EAM_fs", "excel_eam_fs"][(i // 5) % 3], "adp": "eam_adp"}[kind]
  return spec.gen_eam_model(rng, kind, "potable", target=t, depth=1, grids={"nr": rng.choice([3, 5, 9]), "nrho": rng.choice([2, 3, 5])},
                            nspecies=rng.choice([1, 2, 3]))


def gen_cases(rng, tier):
  n = 210 if tier == "quick" else 2800
  cases = []
  for i in range(n):
    m = gen_model(rng, i)
    route = "cli" if i % 20 == 3 else rng.choice(["inproc", "inproc", "main"])
    cases.append({"model": m, "route": route, "tseed": rng.randrange(1 << 30), "raw": (i // 5 if i % 5 in (0, 4) and i % 3 != 1 else None), "emptied": (i // 4 if i % 4 == 2 else None),
                  "junk_unused": (i // 7 if i % 7 == 3 else None)})
  return cases


def template(items, rng):
  """-> (templated sections, substituted sections, variables, unused variables, n placeholders used)."""
  variables = []   # (name, value)
  names = set()

  def newname(section_keys=()):
    """A ${NAME} placeholder is looked up in the referencing section first, so the name of a *used*
    variable must not be a key of that section; names of keys of OTHER sections are fair game."""
    avoid = set(emit_norm(k).lower() for k in section_keys)
    for _ in range(100):
      c = rng.random()
      if c < 0.25:
        nm = rng.choice(TRICKY)
      else:
        nm = rng.choice(["V", "var_", "p", "K"]) + str(rng.randint(0, 999))
      if nm.lower() not in names and nm.lower() not in avoid:
        names.add(nm.lower())
        return nm
    raise RuntimeError("names")

  flat = [(s, k, v) for s, its in items for k, v in its]
  # literal items that may be the target of ${SECTION:KEY}; they stay literal themselves
  frozen = set()
  cands = [(s2, k2, v2) for s2, k2, v2 in flat if s2 in ("Species", "Tabulation") and NUM.fullmatch(v2.strip() or "x")]
  rng.shuffle(cands)
  cands = cands[:2]
  for s2, k2, v2 in cands:
    frozen.add((s2, k2))
  templ, subst = [], []
  used = 0
  for s, its in items:
    t_its, s_its = [], []
    keys = [k for k, v in its]
    for k, v in its:
      tv = v
      c = rng.random()
      if (s, k) in frozen:
        pass
      elif c < 0.12 and s != "Tabulation":
        nm = newname(keys)
        variables.append((nm, v))
        tv = "${%s}" % nm
        used += 1
      elif c < 0.22 and cands and s not in ("Tabulation", "Species"):
        toks = list(NUM.finditer(v))
        if toks:
          s2, k2, v2 = rng.choice(cands)
          mt = rng.choice(toks)
          tv = v[:mt.start()] + "${%s:%s}" % (s2, k2) + v[mt.end():]
          v = v[:mt.start()] + v2.strip() + v[mt.end():]
          used += 1
      elif c < 0.75:
        toks = list(NUM.finditer(v))
        if toks:
          pick = sorted(rng.sample(range(len(toks)), rng.randint(1, min(3, len(toks)))), reverse=True)
          for pi in pick:
            mt = toks[pi]
            nm = newname(keys)
            lit = mt.group(0)
            # a chained reference is resolved in the section that uses the outer variable (configparser
            # interpolates default-section values there), so it may only name variables that cannot be
            # shadowed by a key of some section: the plainly named ones
            same = [b for b in variables if b[1].strip() == lit and b[0] not in TRICKY]
            if rng.random() < 0.3 and same:
              variables.append((nm, "${%s}" % rng.choice(same)[0]))   # a variable defined through another variable
            else:
              variables.append((nm, lit))
            tv = tv[:mt.start()] + "${%s}" % nm + tv[mt.end():]
            used += 1
      t_its.append((k, tv))
      s_its.append((k, v))
    templ.append((s, t_its))
    subst.append((s, s_its))
  unused = []
  for _ in range(rng.randint(0, 4)):
    nm = newname()
    unused.append((nm, rng.choice(["17", "0.125", "LAMMPS", "as.constant 3", "1 2 3 4", "text with spaces"])))
  return templ, subst, variables, unused, used


def emit_norm(k):
  return re.sub(r"\s+", "", k)


def text_with_vars(secs, variables, rng, at_end=None):
  body = emit.items_text(secs)
  if not variables:
    return body
  vs = "[Variables]\n" + "\n".join("%s : %s" % (n, v) for n, v in variables) + "\n"
  if at_end is None:
    at_end = rng.random() < 0.4
  return body + "\n" + vs if at_end else vs + "\n" + body


def run_route(route, text):
  if route == "inproc":
    from atsim.potentials.config._common import ConfigurationException
    try:
      out = routes.write_tab(routes.read_config(text))
      return ("ok", out if isinstance(out, bytes) else out.encode())
    except ConfigurationException as e:
      return ("config_error", str(e)[:200])
    except Exception as e:
      et, fn = exc_sig(e)
      return ("internal", "%s: %s in %s" % (et, str(e)[:200], fn), et, fn)
  runner = routes.run_potable if route == "cli" else routes.potable_main
  res = runner(["@IN", "@OUT"], text)
  if res["rc"] == 0 and res["exists"]:
    return ("ok", res["data"])
  if res["rc"] == 2 and "configuration error" in res["err"]:
    return ("config_error", res["err"].strip().split("\n")[-1][:200])
  return ("internal", "rc=%s %s" % (res["rc"], res["err"][-300:]), "?", "?")


def same(a, b):
  if a[0] != b[0]:
    return False
  if a[0] != "ok":
    return True
  if a[1][:2] == b"PK" and b[1][:2] == b"PK":
    return readers.read_xlsx(a[1])["sheets"] == readers.read_xlsx(b[1])["sheets"]
  return a[1] == b[1]


def run_case(case, ctx):
  m, route = case["model"], case["route"]
  rng = random.Random(case["tseed"])
  ctx.cls("route:" + route)
  ctx.cls("target:" + m["target"])
  items = emit.model_items(m)
  templ, subst, variables, unused, used = template(items, rng)
  if case.get("junk_unused") is not None:
    # unreferenced variables whose VALUE cannot be substituted (a left-over ${gone}, a stray '$') and whose NAME is an option
    # the reader probes in sections that do not set it: nothing reads them, so nothing may trip over them
    j_ = case["junk_unused"]
    have = set(n_.lower() for n_, _ in variables + unused)
    names_ = ["nrho", "drho", "cutoff_rho", "interpolation", "dr", "target", "nr", "cutoff", "drho"]
    vals_ = ["${gone}", "5 $", "${Old-Section:key}", "$", "${gone} 2.0"]
    for t_ in range(3):
      nm_ = names_[(j_ + 3 * t_) % len(names_)]
      if nm_.lower() not in have:
        unused.append((nm_, vals_[(j_ + t_) % len(vals_)]))
        have.add(nm_.lower())
    ctx.cls("unused_variables_with_unsubstitutable_values")
  for s, its in templ:
    for k, v in its:
      if "${" in v:
        ctx.cls("placeholder_in:" + s.split(":")[0])
      if re.search(r"\$\{[^}]*:", v):
        ctx.cls("cross_reference")
  for n, v in variables + unused:
    if n in TRICKY:
      ctx.cls("variable_named_like_option:" + n)
  if case.get("raw") is not None and m["type"] == "pair":
    # a hand-written formula (no brackets around its literals): placeholders standing where the surrounding text decides
    # the meaning - a negative literal as the base of a power, after a binary operator, inside a call, as an exponent
    raw = RAW_FORMULAS[case["raw"] % len(RAW_FORMULAS)]
    toks = [mt for mt in NUM.finditer(raw)]
    pick = sorted(rng.sample(range(len(toks)), rng.randint(1, min(3, len(toks)))), reverse=True)
    if case["raw"] % 2 == 0:
      neg = [i_ for i_, mt in enumerate(toks) if mt.group(0).startswith("-")]
      pick = sorted(set(pick) | set(neg[:1]), reverse=True)
    traw = raw
    for pi in pick:
      mt = toks[pi]
      nm = "rawv%d" % pi
      variables.append((nm, mt.group(0)))
      traw = traw[:mt.start()] + "${%s}" % nm + traw[mt.end():]
      used += 1
    ctx.cls("hand_written_formula_with_placeholders")
    if any(v_.startswith("-") for n_, v_ in variables if n_.startswith("rawv")):
      ctx.cls("negative_literal_lifted_from_hand_written_formula")
    for lst, txt in ((items, raw), (templ, traw), (subst, raw)):
      pf = [x for x in lst if x[0] == "Potential-Form"]
      if pf:
        pf[0][1].append(("zraw(r, q)", txt))
      else:
        lst.append(("Potential-Form", [("zraw(r, q)", txt)]))
      [x for x in lst if x[0] == "Pair"][0][1].append(("He-Ne", "zraw 0.75"))
  plain = emit.items_text(items)
  t_templ = text_with_vars(templ, variables + unused, rng)
  t_subst = emit.items_text(subst)
  t_unused = text_with_vars(items, unused, rng) if unused else None
  r_plain = run_route(route, plain)
  r_templ = run_route(route, t_templ)
  r_subst = run_route(route, t_subst)
  ctx.count("differentials")
  ctx.count("placeholders_used", used)
  if r_subst[0] == "internal":
    ctx.count("substituted_file_internal_error")
    ctx.note("substituted file fails internally: %s" % r_subst[1][:200])
  if not same(r_templ, r_subst):
    ctx.violation("templated_differs", "templated file -> %s (%s); substituted file -> %s (%s) via %s" % (
      r_templ[0], str(r_templ[1])[:200] if r_templ[0] != "ok" else "%d bytes" % len(r_templ[1]),
      r_subst[0], str(r_subst[1])[:200] if r_subst[0] != "ok" else "%d bytes" % len(r_subst[1]), route),
      what="templated_differs", exc=r_templ[2] if r_templ[0] == "internal" else "-", func=r_templ[3] if r_templ[0] == "internal" else "-")
    return
  if m["type"] != "pair" and case.get("emptied") is None and case.get("raw") is None:
    # The same placeholder text in two sections is resolved for each section on its own: what an entry expands to must not
    # depend on which section was read first.  (No claim is made here about WHICH definition '${NAME}' names when the
    # referencing section has a key NAME of its own - only that reading order does not change it.)
    emb = [x for x in items if x[0] == "EAM-Embed"]
    den = [x for x in items if x[0] == "EAM-Density"]
    if emb and den and len(emb[0][1]) >= 2 and len(den[0][1]) >= 2 and "->" not in den[0][1][0][0]:
      common = [k for k, _ in emb[0][1] if k in dict(den[0][1])]
      if len(common) >= 2:
        src, dst = common[0], common[1]
        its2 = [(s_, [(k, ("${%s}" % src if (s_ in ("EAM-Embed", "EAM-Density") and k == dst) else v)) for k, v in its_]) for s_, its_ in items]
        t2 = emit.items_text(its2)
        from atsim.potentials.config import ConfigParser as CP
        def read(order):
          cp = CP(io.StringIO(t2))
          out = {}
          for attr in order:
            try:
              out[attr] = repr(getattr(cp, attr))
            except Exception as e:
              out[attr] = "ERR:%s" % type(e).__name__
          return out
        a = read(["eam_embed", "eam_density"])
        b = read(["eam_density", "eam_embed"])
        ctx.count("reading_order_pairs")
        ctx.cls("same_placeholder_text_in_two_sections")
        if a != b:
          ctx.violation("resolution_depends_on_reading_order", "entry '%s : ${%s}' in [EAM-Embed] and [EAM-Density]: read embed-first %s / density-first %s" % (
            dst, src, {k: v[:80] for k, v in a.items()}, {k: v[:80] for k, v in b.items()}), what="resolution_depends_on_reading_order")
          return
  if case.get("emptied") is not None:
    # a section whose entries are all commented out (the header remains) next to variables NAMED LIKE those entries:
    # defining variables that nothing references must not stand in for the missing entries
    cand = [k_ for k_, (s_, its_) in enumerate(items) if its_ and not s_.startswith("Table-Form") and s_ != "Potential-Form"]
    if cand:
      k_ = cand[case["emptied"] % len(cand)]
      s_, its_ = items[k_]
      emptied = [(x_, (list(y_) if x_ != s_ else [(None, "# %s : %s" % (kk, vv.split("\n")[0])) for kk, vv in y_])) for x_, y_ in items]
      shadow = [(kk, vv) for kk, vv in its_ if "\n" not in vv]
      t_plain_e = emit.items_text(emptied)
      t_vars_e = text_with_vars(emptied, shadow, rng)
      ra, rb = run_route(route, t_plain_e), run_route(route, t_vars_e)
      ctx.count("emptied_section_files")
      ctx.cls("emptied_section:" + s_.split(":")[0])
      if not same(ra, rb):
        ctx.violation("unused_variables_change_meaning", "[%s] with all its entries commented out: without variables -> %s (%s); with unreferenced variables named like the entries %s -> %s (%s) via %s" % (
          s_, ra[0], str(ra[1])[:120] if ra[0] != "ok" else "%d bytes" % len(ra[1]), [kk for kk, _ in shadow], rb[0], str(rb[1])[:120] if rb[0] != "ok" else "%d bytes" % len(rb[1]), route),
          what="unused_variables_change_meaning")
        return
  if t_unused is not None:
    r_unused = run_route(route, t_unused)
    ctx.count("unused_variable_files")
    if not same(r_unused, r_plain):
      ctx.violation("unused_variables_change_meaning", "plain file -> %s, plain file + unused variables %s -> %s (%s) via %s" % (
        r_plain[0], unused, r_unused[0], str(r_unused[1])[:200] if r_unused[0] != "ok" else "%d bytes" % len(r_unused[1]), route),
        what="unused_variables_change_meaning")
      return
  ctx.cls("agree:" + r_templ[0])
  ctx.nontrivial(used >= 1 and r_templ[0] == "ok")
