"""C02 - DL_POLY TABLE files are faithful; nr%4 != 0 is rejected (DESIGN.md section 4, C02)."""
import io
import random

import mpmath as mp

import emit
import monitors
import oracle
import readers
import refmodel as R
import routes
import spec
from harness import exc_sig

PROPERTY_ID = "C02"
LEVEL = "exploration"
RULE = ("seeded random pair models as in C01 with labels <= 8 characters; acceptance class: nr in multiples of 4 from 8 to 400 "
        "(2000 thorough); rejection class: every residue 1,2,3 mod 4; routes: DLPoly_PairTabulation, writePotentials('DL_POLY'), "
        "potable targets DL_POLY and DLPOLY in-process and CLI. Non-trivial: an accepted case with a non-zero reference force at a "
        "sampled row, or a rejected case (nr%4 != 0) with at least one potential; distinct = canonical JSON of (model, route).")
ASSUMPTIONS = ["mpmath reference evaluator and scipy FITPACK are the trusted base",
               "tolerance: printed quantum/2 + 1e-9*local magnitude + k ulp argument drift (the writer accumulates r) (+ central-difference slack)",
               "nr = 4 (delpot undefined by the statement's own formula) and values >= 1e90 (three-digit exponents) are outside the generated domain"]
ANCHORS = ["_dlpoly_writeTABLE.py:_writePotential", "_dlpoly_writeTABLE.py:_calculateForce", "_dlpoly_writeTABLE.py:_writeTableHeader",
           "pair_tabulation.py:DLPoly_PairTabulation.write", "_tabulation_factories.py:DLPOLY_PairTabulationFactory.extract_cutoffs"]
MIN_NONTRIVIAL = {"quick": 20, "thorough": 200}
MIN_COUNTERS = {"values_compared": 500, "rejections_observed": 10}
TECHNIQUE = "runtime monitoring: fixed-width consumer-side TABLE reader vs mpmath reference; rejection observed as exception/exit status with zero emitted bytes"
LEVEL_TEXT = ("Exploration: real writers run on seeded random models; the emitted bytes are parsed with DL_POLY's fixed-column rules "
              "(80-col title, 2e15.8+i10 header, a8a8 block heads, 4e15.8 records, energies then forces, nothing left over) and compared "
              "with a 40-digit reference (V(k*delpot), -r*dV/dr); for nr%4!=0 a recording file object / the CLI exit status and output "
              "file show that the run is refused with zero bytes emitted. All residues mod 4 are enumerated; everything else is sampled.")
LEVEL_NOTE = "Trusted: mpmath, scipy spline construction, the reader's transcription of the TABLE layout, tolerance model of DESIGN.md 3.5."
DESIGN_REF = "DESIGN.md section 4, C02"

ROUTES = ["api_class", "api_legacy", "potable", "potable", "cli"]


def gen_cases(rng, tier):
  n = 150 if tier == "quick" else 2500
  cases = []
  for i in range(n):
    route = rng.choice(ROUTES) if i % 20 else "cli"
    groute = "api" if route.startswith("api") else "potable"
    reject = (i % 4 == 3)
    if reject:
      nr = rng.choice([5, 6, 7, 9, 10, 11, 13, 50, 101, 102, 103, 1001, 401, 402, 403])
      if i % 3 == 0:
        nr = 4 * rng.randint(2, 100) + (i // 4) % 3 + 1
    else:
      big = [1000, 2000] if tier == "thorough" and rng.random() < 0.05 else []
      nr = rng.choice([8, 12, 16, 20, 40, 100, 200, 400] + big)
    model = spec.gen_pair_model(rng, groute, target=rng.choice(["DL_POLY", "DLPOLY"]), nr_choices=[nr], maxlabel=8,
                                depth=1 if reject else 2, rmax_scale=lambda n: n / max(1.0, n - 4.0))
    if route.startswith("api") and not reject:
      model["api_variant"] = rng.choice([None, None, "tuple", "int_cutoff", "kwargs", "realfile", "amend_after_write"])
      if i % 7 == 3:
        model["api_variant"] = "refit"      # the state behind the functions is refined between two writes of the same objects
      if model["api_variant"] == "int_cutoff":
        model["tab"]["cutoff"] = float(rng.randint(1, 20))
      if i % 5:
        model["api_results"] = [None, "numpy0d", "numpy0d_int", "numpy0d_cached", "falsy_callable"][i % 5]   # functions returning 0-d numpy arrays (fresh / integer-typed / memoised)
    cases.append({"route": route, "model": model, "style": rng.randrange(1 << 30), "reject": reject})
  # a discontinuity of V exactly on a grid point of a grid whose step is NOT a dyadic fraction (r accumulates
  # rounding there): energy and force of that row must still come from one and the same branch
  for i in range(8 if tier == "quick" else 80):
    nr = rng.choice([104, 204, 1004])
    cutoff = (nr - 4) * rng.choice([0.01, 0.05, 0.1])
    b1 = round(rng.randint(3, nr - 10) * cutoff / (nr - 4), 6)
    inner = {"k": "form", "name": "polynomial", "p": [spec.rfloat(rng, 1.0, 5.0), spec.rfloat(rng, -1.0, -0.2), spec.rfloat(rng, 0.01, 0.1)]}
    outer = rng.choice([{"k": "form", "name": "zero", "p": []}, {"k": "form", "name": "polynomial", "p": [spec.rfloat(rng, -3.0, -1.0), spec.rfloat(rng, 0.3, 1.0)]}])
    node = {"k": "ranges", "parts": [[">", 0.0, inner], [rng.choice([">", ">="]), b1, outer]]}
    route = ["api_class", "api_legacy", "potable"][i % 3]
    model = {"type": "pair", "target": rng.choice(["DL_POLY", "DLPOLY"]), "tab": {"nr": nr, "cutoff": cutoff}, "forms": [], "tables": [], "pair": [["Ar", "Kr", node]]}
    cases.append({"route": route, "model": model, "style": rng.randrange(1 << 30), "reject": False, "boundary_on_grid": b1})
  # potentials whose energy is exactly 0 at a grid point where the slope is not (roots on the grid):
  # a writer that treats "energy == 0" as "switched off" would print a zero force there
  for i in range(20 if tier == "quick" else 120):
    nr = rng.choice([8, 12, 24, 44])
    cutoff = (nr - 4) * rng.choice([0.25, 0.125, 0.5])
    delpot = cutoff / (nr - 4)
    k = rng.randint(2, nr - 2)
    node, rv = spec.root_node(rng, k * delpot, spec.ROOT_VARIANTS[i % len(spec.ROOT_VARIANTS)])
    route = ["api_class", "api_legacy", "potable", "cli"][(i + i // 10) % 4]
    model = {"type": "pair", "target": "DL_POLY", "tab": {"nr": nr, "cutoff": cutoff}, "forms": [], "tables": [], "pair": [["Ar", "Ar", node]]}
    cases.append({"route": route, "model": model, "style": rng.randrange(1 << 30), "reject": False, "root_on_grid": k, "root_variant": rv})
  # rejection does not depend on what is tabulated: an EMPTY list of potentials with a row count that is not a multiple
  # of four (or with the four rows for which delpot = cutoff/(nr-4) does not exist) is refused all the same
  for k_, nr_ in enumerate([5, 6, 7, 10, 4, 4]):
    model = {"type": "pair", "target": "DLPOLY", "tab": {"nr": nr_, "cutoff": 6.0}, "forms": [], "tables": [], "pair": [] if k_ % 2 == 0 or nr_ != 4 else [["Ar", "Ar", {"k": "form", "name": "constant", "p": [1.0]}]]}
    cases.append({"route": ["api_legacy", "api_class"][k_ % 2], "model": model, "style": k_, "reject": True, "empty_list": not model["pair"]})
  # a discontinuity exactly ON a row of a grid that is exact in doubles (first row, interior, the row at the cutoff), also
  # with one callable shared by two potentials: the energy pass and the force pass both revisit row 1 - judged strictly
  for i in range(28 if tier == "quick" else 196):
    v = spec.EXACT_BOUNDARY_VARIANTS[i % len(spec.EXACT_BOUNDARY_VARIANTS)]
    route = ["potable", "cli", "api_legacy", "api_class"][(i % 7 + i // 7) % 4]
    model, k = spec.exact_boundary_model(rng, rng.choice(["DL_POLY", "DLPOLY"]), v, dlpoly=True, shared=route.startswith("api"))
    cases.append({"route": route, "model": model, "style": rng.randrange(1 << 30), "reject": False, "exact_boundary": v, "root_on_grid": k})
  # decimal grids: a discontinuity 8 ulps below / above an upper row k - whichever rounding of k*delpot the writer uses the
  # row is on a definite side, unless its separations drift (a running sum is tens of ulps off after some hundred rows)
  for i in range(16 if tier == "quick" else 80):
    v = spec.NEAR_ROW_VARIANTS[i % 2]
    route = ["api_class", "potable", "api_legacy", "cli"][(i // 2) % 4]
    model, k = spec.near_row_boundary_model(rng, ["DL_POLY", "DLPOLY"][i % 2], v, i // 2, dlpoly=True)
    cases.append({"route": route, "model": model, "style": rng.randrange(1 << 30), "reject": False, "near_row_boundary": v, "root_on_grid": k, "strict_rows": [k]})
  # plain Python callables whose first rows are whole numbers returned as int (a capped core: 100 below r_c), floats later
  for i in range(6 if tier == "quick" else 40):
    nr = rng.choice([8, 12, 24, 44])
    cutoff = (nr - 4) * 0.25
    rc = rng.choice([0.5, 1.0, 1.5])
    node = {"k": "ranges", "parts": [[">=", 0.0, {"k": "form", "name": "constant", "p": [rng.choice([100.0, 50.0, 7.0])]}],
                                      [">", rc, {"k": "form", "name": "polynomial", "p": [spec.rfloat(rng, 1.0, 5.0), spec.rfloat(rng, -1.0, -0.2), spec.rfloat(rng, 0.01, 0.1)]}]]}
    model = {"type": "pair", "target": "DL_POLY", "tab": {"nr": nr, "cutoff": cutoff}, "forms": [], "tables": [], "pair": [["Ar", "Kr", node]], "api_results": "int_when_whole"}
    cases.append({"route": ["api_class", "api_legacy"][i % 2], "model": model, "style": rng.randrange(1 << 30), "reject": False})
  # row-count sweep (everything small, m*10^k, 2^k, multiples of 5000, each with neighbours): structure and end values
  szs = spec.edge_sizes(tier, multiple_of=4, lo=8)
  for c0 in range(0, len(szs), 12):
    cases.append({"kind": "sizes", "sizes": szs[c0:c0 + 12], "route": "api_legacy", "model": None, "style": 0})
  # one table of many long blocks: 7 x 2^17 rows (about 30 MB); thorough: also 12 x 2^17
  cases.insert(0, {"kind": "many_long_blocks", "n": 1 << 17, "npots": 7, "route": "api_class", "model": None, "style": 0})
  if tier != "quick":
    cases.insert(1, {"kind": "many_long_blocks", "n": 1 << 17, "npots": 12, "route": "api_class", "model": None, "style": 0})
  return cases


def run_reject(case, ctx, model, route, rng):
  nr = int(model["tab"]["nr"])
  cutoff = float(model["tab"]["cutoff"])
  ctx.cls("residue:%d" % (nr % 4))
  ctx.nontrivial(len(model["pair"]) > 0 or bool(case.get("empty_list")))
  if case.get("empty_list"):
    ctx.cls("rejection_with_empty_potential_list")
  if route == "cli":
    text_in = emit.model_text(model, emit.Style(rng))
    res = routes.run_potable(["@IN", "@OUT"], text_in)
    ctx.count("rejections_observed")
    if res["rc"] == 0:
      ctx.violation("not_rejected", "potable accepted nr=%d (rc 0)" % nr, what="not_rejected")
    elif res["rc"] != 2 or "configuration error" not in res["err"]:
      ctx.violation("reject_not_config_error", "rc=%s stderr=%s" % (res["rc"], res["err"][-400:]), what="reject_kind")
    if res["exists"] and res["data"]:
      ctx.violation("reject_left_output", "OUTPUT_FILE holds %d bytes after rejection" % len(res["data"]), what="reject_output")
    return
  fp = monitors.RecordingFile()
  try:
    if route == "api_class":
      tab = routes.pair_tab_api(model, target="DLPOLY")
      tab.write(fp)
    elif route == "api_legacy":
      import atsim.potentials as ap
      ap.writePotentials("DL_POLY", routes.pair_potentials_api(model), cutoff, nr, fp)
    else:
      text_in = emit.model_text(model, emit.Style(rng))
      tab = routes.read_config(text_in)
      tab.write(fp)
  except Exception as e:
    ctx.count("rejections_observed")
    et, fn = exc_sig(e)
    ctx.cls("reject_exc:" + et)
    if route == "potable":
      from atsim.potentials.config._common import ConfigurationException
      if not isinstance(e, ConfigurationException):
        ctx.violation("reject_not_config_error", "potable route raised %s: %s" % (et, e), what="reject_kind", exc=et, func=fn)
    if fp.nbytes != 0:
      ctx.violation("reject_left_output", "%d bytes were written before the rejection" % fp.nbytes, what="reject_output")
    return
  ctx.violation("not_rejected", "nr=%d accepted through %s; %d bytes written" % (nr, route, fp.nbytes), what="not_rejected")


def run_case(case, ctx):
  if case.get("kind") == "many_long_blocks":
    import sizesweep
    ctx.cls("kind:many_long_blocks")
    if sizesweep.check_dlpoly_many(ctx, case["n"], case["npots"]):
      ctx.nontrivial(True)
    return
  if case.get("kind") == "sizes":
    import sizesweep
    ctx.cls("kind:row_count_sweep")
    for n_ in case["sizes"]:
      ctx.cls(sizesweep.size_class(n_))
      if not (sizesweep.check_dlpoly(ctx, n_)):
        return
    ctx.nontrivial(True)
    return
  model = case["model"]
  route = case["route"]
  groute = "api" if route.startswith("api") else "potable"
  rng = random.Random(case["style"])
  ctx.cls("route:" + route)
  ctx.cls("target:" + model["target"])
  if case["reject"]:
    return run_reject(case, ctx, model, route, rng)
  M = R.Model(model["forms"], model["tables"])
  cutoff = float(model["tab"]["cutoff"])
  nr = int(model["tab"]["nr"])
  refs = []
  for a, b, node in model["pair"]:
    n2 = spec.wrap_potable(node) if groute == "potable" else node
    refs.append(oracle.ValueOracle(M, n2, analytic=spec.all_analytic(node) and model.get("api_results") != "int_when_whole"))   # that wrapper offers no derivatives
    for k in spec.node_kinds(node):
      ctx.cls("kind:" + k)
  delpot = oracle.grid(cutoff, nr - 4)
  rows = oracle.sample_rows(nr, rng, 24)
  if case.get("exact_boundary"):
    ctx.cls("exact_boundary_on_row:" + case["exact_boundary"])
  if case.get("near_row_boundary"):
    ctx.cls("near_row_boundary:" + case["near_row_boundary"])
  if case.get("root_on_grid"):
    rows = sorted(set(rows + [case["root_on_grid"] - 1]))
    ctx.cls("root_on_grid")
    ctx.cls("root_on_grid:" + case.get("root_variant", "?"))
  if case.get("boundary_on_grid"):
    kb = int(round(case["boundary_on_grid"] / float(delpot)))
    rows = sorted(set(rows + [k for k in (kb - 2, kb - 1, kb) if 0 <= k < nr]))
    ctx.cls("discontinuity_on_grid_point")
  try:
    for o in refs:
      for i in rows:
        r = R.F(delpot * (i + 1))
        v = o.value(r)
        d = o.deriv(r) if i in (rows[0], rows[-1]) else 0
        if abs(v) > mp.mpf("1e90") or abs(d * r) > mp.mpf("1e90"):
          raise R.RefDomainError("huge")
  except (R.RefDomainError, ZeroDivisionError, ValueError, OverflowError):
    ctx.count("out_of_domain")
    return
  log = monitors.EventLog()
  pots = None
  del routes.NUMPY0D_CACHED[:]
  try:
    if route == "cli":
      text_in = emit.model_text(model, emit.Style(rng))
      res = routes.run_potable(["@IN", "@OUT"], text_in)
      if res["rc"] == 1 and "OverflowError" in res["err"]:
        raise OverflowError("potable subprocess: math range error")
      if res["rc"] != 0 or not res["exists"]:
        ctx.violation("cli_failed", "potable rc=%s stderr=%s" % (res["rc"], res["err"][-500:]), what="cli", exc="rc%s" % res["rc"])
        return
      text = res["data"].decode()
    else:
      with monitors.PotentialTrace(log):
        if model.get("api_variant") == "refit" and route.startswith("api"):
          import atsim.potentials as ap_
          model["api_refit"] = 1
          routes.refit_begin()
          try:
            ap_.writePotentials("DL_POLY", routes.pair_potentials_api(model), cutoff, nr, io.StringIO())
          except Exception:
            pass
          routes.refit_end()
          del log.events[:]
        if route == "api_class":
          tab = routes.pair_tab_api(model, target="DLPOLY")
          if model.get("api_variant") == "amend_after_write":
            del log.events[:]     # the first (incomplete) write is not the one under observation
          pots = tab.potentials
          text = routes.write_to_real_file(tab.write) if model.get("api_variant") == "realfile" else routes.write_tab(tab)
          ctx.cls("api_variant:%s" % model.get("api_variant"))
        elif route == "api_legacy":
          import atsim.potentials as ap
          pots = routes.pair_potentials_api(model)
          out = routes.text_sink()
          ap.writePotentials("DL_POLY", tuple(pots) if model.get("api_variant") == "tuple" else pots, int(cutoff) if model.get("api_variant") == "int_cutoff" else cutoff, nr, out)
          text = out.getvalue()
        else:
          text_in = emit.model_text(model, emit.Style(rng))
          tab = routes.read_config(text_in)
          pots = tab.potentials
          text = routes.write_tab(tab)
  except OverflowError as e:
    if oracle.overflow_is_out_of_domain([(o, [delpot * (i + 1) for i in range(nr)]) for o in refs]):
      ctx.count("out_of_domain")
      return
    et, fn = exc_sig(e)
    ctx.violation("exception", "valid model failed: %s: %s" % (et, e), what="exception", exc=et, func=fn)
    return
  except Exception as e:
    et, fn = exc_sig(e)
    ctx.violation("exception", "valid model failed: %s: %s" % (et, e), what="exception", exc=et, func=fn)
    return
  ctx.count("executions")
  routes.refit_done()
  if str(model.get("api_results")).startswith("numpy0d"):
    ctx.cls("api_results:" + model["api_results"])
    if not routes.numpy0d_mutations(ctx):
      return
  try:
    tbl = readers.read_dlpoly_table(text)
  except readers.FormatError as e:
    import re
    wide = re.findall(r"[0-9]e[+-][0-9]{3}", text)
    if wide and "columns" in str(e):
      # mechanism: a value below 1e-99 / above 1e+99 prints a three-digit exponent and widens its 15-column field
      ctx.violation("format", str(e), what="format", mech="three_digit_exponent_widens_field")
    else:
      ctx.violation("format", str(e), what="format", mech="other")
    return
  if tbl["ngrid"] != nr:
    ctx.violation("header_ngrid", "ngrid=%d expected %d" % (tbl["ngrid"], nr), what="header_ngrid")
    return
  oracle.check_token(ctx, "header_delpot", tbl["delpot_tok"], R.F(delpot), 0, rel=1e-12)
  oracle.check_token(ctx, "header_cutpot", tbl["cutpot_tok"], R.F(cutoff), 0, rel=1e-12)
  if len(tbl["blocks"]) != len(model["pair"]):
    ctx.violation("block_count", "%d blocks for %d potentials" % (len(tbl["blocks"]), len(model["pair"])), what="block_count")
    return
  ctx.count("blocks", len(tbl["blocks"]))
  any_force = False
  for idx, (blk, (a, b, node), o) in enumerate(zip(tbl["blocks"], model["pair"], refs)):
    if (blk["a"], blk["b"]) != (a, b):
      ctx.violation("block_labels", "block %d labelled %r %r for %s-%s" % (idx, blk["a"], blk["b"], a, b), what="block_labels")
    if len(blk["energies"]) != nr or len(blk["forces"]) != nr:
      ctx.violation("value_count", "block %d has %d energies, %d forces, expected %d" % (idx, len(blk["energies"]), len(blk["forces"]), nr), what="value_count")
      continue
    for i in rows:
      k = i + 1
      r = R.F(delpot * k)
      where = "block %d (%s-%s) k=%d r=%s route=%s" % (idx, a, b, k, mp.nstr(r, 12), route)
      d_ref = o.deriv(r)
      drift = 8 * mp.mpf("2.3e-16") * r    # the separation a writer uses may be a few ulps from k*delpot (not a running sum: see near_row_boundary)
      oracle.check_value(ctx, "energy", blk["energies"][i], o, r, where=where, abs_=abs(d_ref) * drift, fmt="dlpoly_table", strict=bool(case.get("exact_boundary")) or k in case.get("strict_rows", ()))
      if oracle.on_break(r, o.breaks, 1e-9) and o.analytic:
        # a grid point on a range boundary: energy and force must come from the SAME branch of V.
        # If the printed energy identifies one side, the force has to be the derivative of that side.
        sides = oracle.matching_sides(o, r, blk["energies"][i], abs_=abs(d_ref) * drift)
        allsides = oracle.branch_sides(o, r)
        if len(sides) >= 1 and len(set(sides)) < len(allsides):
          okf = False
          last = None
          for at in sides:
            try:
              fr = -r * mp.diff(lambda x: o.m.value(o.node, x, at), r)
              okk, df, tl = R.close(float(blk["forces"][i]), fr, q=R.token_quantum(blk["forces"][i]), sc=o.dscale(r) * r, rel=1e-8, mag=o.dmag(r) * r, abs_=abs(fr) * 1e-6)
              last = (fr, df, tl)
              okf = okf or okk
            except Exception:
              okf = True
          ctx.count("boundary_rows_energy_force_same_branch")
          if not okf:
            ctx.violation("force_other_branch", "force: observed %s but the energy of this row (%s) comes from the branch whose -r dV/dr is %s at %s" % (
              blk["forces"][i], blk["energies"][i], mp.nstr(last[0], 12), where), what="force_other_branch")
        continue
      if oracle.on_break(r, o.breaks, 1e-9) or ((not o.analytic) and oracle.near_break(r, o.breaks)):
        ctx.count("force_rows_skipped_at_breakpoint")
        continue
      f_ref = -r * d_ref
      if not (abs(f_ref) <= 1e-6):
        any_force = True
      slack = 0 if o.analytic else o.num_deriv_slack(r) * r
      try:
        d2 = abs(o.deriv(r, 2))
      except Exception:
        d2 = 0
      slack += (abs(d_ref) + r * d2) * drift
      oracle.check_token(ctx, "force", blk["forces"][i], f_ref, o.dscale(r) * r, rel=1e-8, abs_=slack, where=where, mag=o.dmag(r) * r, fmt="dlpoly_table")
  ctx.nontrivial(any_force)
  if pots is not None:
    ev = log.events
    pos = 0
    ok = True
    for pot in pots:
      pid = id(pot)
      for kind in ("energy", "force"):
        for i in range(nr):
          want = float(delpot * (i + 1))
          if pos >= len(ev) or ev[pos][0] != pid or ev[pos][1] != kind or abs(ev[pos][2] - want) > 1e-9 * max(1.0, want):
            ok = False
            break
          pos += 1
        if not ok:
          break
      if not ok:
        break
    if ok and pos != len(ev):
      ok = False
    if ok:
      # the k-th energy and the k-th force are evaluated at the very same double
      for b0 in range(0, len(ev), 2 * nr):
        for i in range(nr):
          if ev[b0 + i][2] != ev[b0 + nr + i][2]:
            ctx.violation("trace", "point %d evaluated at two different separations: energy at %r, force at %r" % (i + 1, ev[b0 + i][2], ev[b0 + nr + i][2]), what="trace", mech="energy_force_separations_differ")
            break
      ctx.count("energy_force_same_separation_rows", len(ev) // 2)
    if not ok:
      ctx.violation("trace", "evaluation trace is not ngrid energies then ngrid forces per potential (event %d of %d)" % (pos, len(ev)), what="trace")
    ctx.count("trace_events_checked", pos)
