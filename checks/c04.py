"""C04 - Finnis-Sinclair densities land in the slot the consumer reads (DESIGN.md section 4, C04)."""
import io
import random

import mpmath as mp

import eamref
import emit
import oracle
import readers
import refmodel as R
import routes
import spec
from harness import exc_sig

PROPERTY_ID = "C04"
LEVEL = "exploration"
RULE = ("seeded random Finnis-Sinclair models over 1-4 species; every ordered pair (A,B) independently declared (80%) or left "
        "undeclared; half of the models give each declared A->B a unique identifying linear density c_AB*r (distinct primes/100) so a "
        "misplaced block is attributable, the other half use random functions from the model language; shuffled order of the A->B and "
        "embedding entries; formats setfl_fs (LAMMPS eam/fs), DL_POLY_EAM_fs (EEAM) and excel_eam_fs; routes tabulation classes, "
        "writeSetFLFinnisSinclair / writeTABEAMFinnisSinclair, potable in-process and CLI. Non-trivial: >= 2 species and at least one "
        "pair A != B whose A->B and B->A functions differ (otherwise a transposition is invisible); distinct = canonical JSON.")
ASSUMPTIONS = ["consumer slot rules: LAMMPS eam/fs takes the density at a site of element i from a neighbour of element j from j's element block, "
               "i-th function (rhor[type2rhor[jtype][itype]]); DL_POLY EEAM 'dens A B' and the Excel column 'A->B' hold the density at an A site from a B neighbour",
               "toy-cluster densities use the consumer's linear interpolation on the tabulated grid, exact for the linear identifying functions"]
ANCHORS = ["_lammpsWriteEAM.py:_writeSetFLDensityFunctionFinnisSinclair", "_dlpoly_writeTABEAM.py:writeTABEAMFinnisSinclair",
           "_eam_potential_builder.py:EAM_Potential_Builder_FS._density_to_potential_form_dict",
           "eam_tabulation.py:Excel_FinnisSinclair_EAMTabulation._add_eam_density", "_config_parser.py:ConfigParser._parse_eam_fs_density_line"]
MIN_NONTRIVIAL = {"quick": 20, "thorough": 200}
MIN_COUNTERS = {"slots_checked": 300, "cluster_atoms_checked": 100}
TECHNIQUE = "runtime monitoring: consumer slot rules applied to the emitted bytes (setfl_fs / EEAM TABEAM / xlsx), unique identifying densities, toy-cluster density recomputed from the file"
LEVEL_TEXT = ("Exploration: real writers run on seeded random FS models; the consumer-side readers extract, for every ordered pair, the function "
              "each format assigns to 'density at an A site from a B neighbour' and the monitor demands it is the function declared for A->B "
              "(zero when undeclared); per-atom embedding densities of random 3-6 atom clusters are recomputed from the file by the consumer's "
              "rules and compared with the model. Unique identifying coefficients make a transposition attributable.")
LEVEL_NOTE = "Trusted: the slot rules quoted above (from the LAMMPS / DL_POLY documentation and sources), mpmath, openpyxl for reading xlsx."
DESIGN_REF = "DESIGN.md section 4, C04"

ROUTES = ["api_class", "api_legacy", "potable", "potable", "cli"]
TARGETS = ["setfl_fs", "DL_POLY_EAM_fs", "excel_eam_fs"]


def gen_cases(rng, tier):
  n = 150 if tier == "quick" else 2000
  cases = []
  for i in range(n):
    target = TARGETS[i % 3]
    route = rng.choice(ROUTES) if i % 20 else "cli"
    if i % 15 == 6:
      route = "api_legacy"     # (i % 15 == 6 is always a setfl_fs case) the legacy writer with an explicit header cutoff, see _produce
    if target == "excel_eam_fs" and route == "api_legacy":
      route = "api_class"
    groute = "api" if route.startswith("api") else "potable"
    unique = (i % 2 == 0)
    grids = {"nr": rng.choice([3, 5, 9, 21, 40]), "nrho": rng.choice([2, 3, 5, 9])} if target == "excel_eam_fs" else None
    model = spec.gen_eam_model(rng, "fs", groute, target=target, unique_density=unique, grids=grids,
                               nspecies=rng.choice([1, 2, 2, 3, 3, 4]), with_forms=not unique)
    if (i % 12 == 11 or i % 12 == 1) and not unique:
      # every A->B density written with the SAME form, parameters and first range, the entries differing only in where a
      # later range takes over (a cut-off per pair: 'as.bornmayer 2 1.5 >=3.0 as.constant 0.01' / '... >=4.5 ...'):
      # each slot holds its own definition to its end (seeded change C04r10 shared one function among them)
      cut_ = float(model["tab"]["cutoff"])
      for j, ent in enumerate(model.get("density") or []):
        ent[-1] = {"k": "ranges", "parts": [[">=", 0.0, {"k": "form", "name": "bornmayer", "p": [2.0, 1.5]}],
                                            [">=", round(cut_ * (0.23 + 0.097 * (j % 7)), 6), {"k": "form", "name": "constant", "p": [0.01 * (j + 1)]}]]}
      model["same_first_range"] = 1
    if i % 12 == 9:
      model = spec.long_labels(rng, model)          # 'Zirconium_a' / 'Zirconium_b': labels alike in their first 8 and 12 characters
    if i % 12 == 7:
      model = spec.numeric_species(rng, model)      # species labelled '9', '10', '2', '100'
    if i % 12 == 3 and groute == "potable":
      model = spec.ion_labels(rng, model)           # species labelled 'F-', 'Na+', 'Ca2+': 'F-->Ca' in A->B keys
    if i % 12 == 5:
      # [Species] overrides that are exactly zero for a species the built-in element table knows: an override is an override,
      # whatever its truth value
      known = [x for x in (model.get("all_species") or []) if x in spec.ELEMENT_DATA]
      if known:
        d_ = model.setdefault("species", {}).setdefault(known[0], {})
        d_["atomic_number"] = 0
        if i % 24 == 5:
          d_["atomic_mass"] = 0.0
    if groute == "api":
      model["api_containers"] = rng.choice([None, None, "tuple", "generator", "map", "amend_after_write"])
      # (the target rotates with i % 3: these variants rotate with i // 3, so that each meets every target)
      if (i // 3) % 3 == 1:
        model["api_density_lookup"] = "on_demand"     # functions made on lookup: a new callable object per access
      elif (i // 3) % 3 == 2 and model.get("api_containers") != "amend_after_write":
        model["api_refit"] = 1                        # the state behind the functions changes between two writes
      if i % 5:
        # functions that return 0-d numpy arrays: fresh ones, integer-typed ones where the value is whole, memoised ones
        # (the same array object again for the same separation - it must come back unchanged); callables that are falsy
        model["api_results"] = [None, "numpy0d", "numpy0d_int", "numpy0d_cached", "falsy_callable"][i % 5]
      model["api_extra_density_keys"] = ((i // 3) % 2 == 0)
    if not unique and i % 4 == 1 and len(model["density"]) >= 2:
      # two A->B definitions that read the same once the blanks between their tokens are removed ('1 25' / '12 5')
      a, b, c = rng.randint(1, 9), rng.randint(1, 9), rng.randint(1, 9)
      model["density"][0][2] = {"k": "form", "name": "polynomial", "p": [a, 10 * b + c]}
      model["density"][1][2] = {"k": "form", "name": "polynomial", "p": [10 * a + b, c]}
    cluster = None
    if unique:
      sp = spec.eam_element_order(model)
      na = rng.randint(3, 6)
      cut = float(model["tab"]["cutoff"])
      cluster = [[rng.choice(sp)] + [round(rng.uniform(0, cut * 0.6), 3) for _ in range(3)] for _ in range(na)]
    if i % 15 == 6:
      model["legacy_cutoff"] = [0.37, 0.5, 0.81][(i // 15) % 3]     # deterministic share: seeded change C04r4 depends on this class
    cases.append({"route": route, "model": model, "style": rng.randrange(1 << 30), "cluster": cluster})
  # row-count sweep (everything small, m*10^k, 2^k, multiples of 5000, each with neighbours): structure and end values
  szs = spec.edge_sizes(tier, multiple_of=1, lo=2)
  for c0 in range(0, len(szs), 12):
    cases.append({"kind": "sizes", "sizes": szs[c0:c0 + 12], "route": "api_legacy", "model": None, "style": 0})
  return cases


def produce(ctx, model, route, rng):
  if model.get("api_refit") and route.startswith("api"):
    # a fitting loop: the table is written, the state behind the functions is refined, the table is written again with the
    # same function objects (and a fresh tabulation object) - the second table holds the refined functions
    ctx.cls("functions_refined_between_two_writes")
    routes.refit_begin()
    try:
      try:
        _produce(ctx, model, route, rng)
      except Exception:
        pass
      routes.refit_end()
      return _produce(ctx, model, route, rng)
    finally:
      routes.refit_done()
  return _produce(ctx, model, route, rng)


def _produce(ctx, model, route, rng):
  t = model["tab"]
  if route == "cli":
    res = routes.run_potable(["@IN", "@OUT"], emit.model_text(model, emit.Style(rng)))
    if res["rc"] == 1 and "OverflowError" in res["err"]:
      raise OverflowError("potable subprocess: math range error")
    if res["rc"] != 0 or not res["exists"]:
      ctx.violation("cli_failed", "potable rc=%s stderr=%s" % (res["rc"], res["err"][-500:]), what="cli", exc="rc%s" % res["rc"])
      return None
    return res["data"]
  if route == "api_class":
    out = routes.write_tab(routes.eam_tab_api(model))
  elif route == "api_legacy":
    import atsim.potentials as ap
    pots, eams = routes.vary_containers(model, routes.eam_api_objects(model)[:2])
    nr, nrho = int(t["nr"]), int(t["nrho"])
    fp = routes.text_sink()
    fn = ap.writeSetFLFinnisSinclair if model["target"] == "setfl_fs" else ap.writeTABEAMFinnisSinclair
    # optional keyword arguments of the legacy writers: an explicit header cutoff (inside or outside the tabulated range)
    # and comment lines.  They belong to the header; no tabulated value may depend on them.
    kw = {}
    c_ = rng.random()
    span = float(t["cutoff"])
    if model.get("legacy_cutoff") and model["target"] == "setfl_fs":
      kw["cutoff"] = round(span * model["legacy_cutoff"], 6)
    elif c_ < 0.25:
      kw["cutoff"] = round(span * rng.choice([0.37, 0.5, 0.81]), 6)
    elif c_ < 0.35:
      kw["cutoff"] = round(span * 1.5, 6)
    if rng.random() < 0.3:
      kw["comments"] = ["first comment", "second", "third line"]
    for k_ in kw:
      ctx.cls("legacy_keyword:" + k_)
    if model["target"] != "setfl_fs":
      kw = {"title": "a title"} if "comments" in kw else {}
    fn(nrho, float(t["cutoff_rho"]) / (nrho - 1), nr, float(t["cutoff"]) / (nr - 1), eams, pots, fp, **kw)
    out = fp.getvalue()
  else:
    out = routes.write_tab(routes.read_config(emit.model_text(model, emit.Style(rng))))
  return out if isinstance(out, bytes) else out.encode()


def extract_slots(ctx, model, data, order, nr):
  """-> {(site, neighbour): [tokens or floats]} by the consumer's rule for the format."""
  target = model["target"]
  slots = {}
  if target == "setfl_fs":
    p = readers.read_setfl(data.decode(), fs=True)
    if p["names"] != order:
      ctx.violation("element_order", "header names %s expected %s" % (p["names"], order), what="element_order")
      return None
    for a in order:
      for b in order:
        slots[(a, b)] = readers.setfl_fs_density(p, a, b)
  elif target == "DL_POLY_EAM_fs":
    p = readers.read_tabeam(data.decode())
    for b in p["blocks"]:
      if b["kw"] == "dens":
        if len(b["species"]) != 2:
          ctx.violation("dens_header", "EEAM dens block names %s" % (b["species"],), what="dens_header")
          return None
        if tuple(b["species"]) in slots:
          ctx.violation("dens_duplicate", "dens %s %s appears twice" % b["species"], what="dens_duplicate")
        slots[tuple(b["species"])] = b["values"]
  else:
    wb = readers.read_xlsx(data)
    rows = wb["sheets"].get("EAM-Density")
    if rows is None:
      ctx.violation("xlsx_sheet", "no EAM-Density sheet: %s" % wb["order"], what="xlsx_sheet")
      return None
    head = rows[0]
    if head[0] != "r":
      ctx.violation("xlsx_head", "first column %r" % (head[0],), what="xlsx_head")
    for c, lab in enumerate(head[1:], start=1):
      if lab is None or "->" not in str(lab):
        ctx.violation("xlsx_label", "column label %r" % (lab,), what="xlsx_label")
        continue
      a, b = [x.strip() for x in str(lab).split("->")]
      slots[(a, b)] = [row[c] for row in rows[1:]]
  for a in order:
    for b in order:
      if (a, b) not in slots:
        ctx.violation("slot_missing", "no function stored for density at %s from %s" % (a, b), what="slot_missing")
        return None
      if len(slots[(a, b)]) != nr:
        ctx.violation("slot_length", "slot %s<-%s has %d values, expected %d" % (a, b, len(slots[(a, b)]), nr), what="slot_length")
        return None
  return slots


def run_case(case, ctx):
  if case.get("kind") == "sizes":
    import sizesweep
    ctx.cls("kind:row_count_sweep")
    for n_ in case["sizes"]:
      ctx.cls(sizesweep.size_class(n_))
      if not (sizesweep.check_setfl(ctx, n_, fs=True) and sizesweep.check_tabeam(ctx, n_, fs=True)):
        return
    ctx.nontrivial(True)
    return
  model = case["model"]
  route = case["route"]
  potable = not route.startswith("api")
  rng = random.Random(case["style"])
  ctx.cls("route:" + route)
  if model.get("api_containers"):
    ctx.cls("api_containers:" + model["api_containers"])
  if model.get("api_extra_density_keys") and route.startswith("api") and model["type"] == "fs":
    ctx.cls("density_dictionaries_with_extra_species")
  ctx.cls("target:" + model["target"])
  ref = eamref.EamRef(model, potable)
  order = ref.order
  ctx.cls("nspecies:%d" % len(order))
  nr, dr, nrho, drho = ref.grids()
  ridx = oracle.sample_rows(nr, rng, 10)
  if not ref.in_domain([R.F(dr * i) for i in ridx], [R.F(drho * i) for i in oracle.sample_rows(nrho, rng, 6)], limit="1e100"):
    ctx.count("out_of_domain")
    return
  try:
    del routes.NUMPY0D_CACHED[:]
    data = produce(ctx, model, route, rng)
  except OverflowError as e:
    if eamref.overflow_is_out_of_domain(ref.all_functions()):
      ctx.count("out_of_domain")
      return
    et, fnn = exc_sig(e)
    ctx.violation("exception", "valid model failed: %s: %s" % (et, e), what="exception", exc=et, func=fnn)
    return
  except Exception as e:
    et, fnn = exc_sig(e)
    ctx.violation("exception", "valid model failed: %s: %s" % (et, e), what="exception", exc=et, func=fnn)
    return
  if data is None:
    return
  ctx.count("executions")
  if model.get("api_results"):
    ctx.cls("api_results:" + model["api_results"])
    if not routes.numpy0d_mutations(ctx):
      return
  try:
    slots = extract_slots(ctx, model, data, order, nr)
  except readers.FormatError as e:
    ctx.violation("format", str(e), what="format")
    return
  if slots is None:
    return
  decl = {(e[0], e[1]): e[2] for e in model["density"]}
  asym = False
  for a in order:
    for b in order:
      o = ref.density_fs(a, b)
      toks = slots[(a, b)]
      where = "density at %s from %s (declared %s->%s: %s) route=%s target=%s" % (a, b, a, b, "yes" if (a, b) in decl else "no, expect zero", route, model["target"])
      if not isinstance(toks[0], str):
        toks = [repr(float(v)) for v in toks]   # xlsx cells are doubles: compare like fully printed tokens
      eamref.check_series(ctx, "slot", toks, o, dr, ridx, where)
      ctx.count("slots_checked")
      if a != b and decl.get((a, b)) != decl.get((b, a)):
        asym = True
      ctx.cls("slot_declared" if (a, b) in decl else "slot_zero_filled")
  ctx.nontrivial(asym and len(order) >= 2)

  # --- toy cluster: per-atom density by the consumer's rules from the file vs from the model
  cluster = case.get("cluster")
  if cluster:
    grid_dr = float(dr)

    def file_rho(site, nb, r):
      vals = [float(v) for v in slots[(site, nb)]]
      x = r / grid_dr
      k = int(x)
      if k >= nr - 1:
        return 0.0 if r > grid_dr * (nr - 1) else vals[nr - 1]
      return vals[k] + (vals[k + 1] - vals[k]) * (x - k)

    cut = grid_dr * (nr - 1)
    for i, (si, xi, yi, zi) in enumerate(cluster):
      tot_f, tot_m = 0.0, mp.mpf(0)
      for j, (sj, xj, yj, zj) in enumerate(cluster):
        if i == j:
          continue
        r = ((xi - xj) ** 2 + (yi - yj) ** 2 + (zi - zj) ** 2) ** 0.5
        if r <= 0 or r > cut:
          continue
        tot_f += file_rho(si, sj, r)
        tot_m += ref.density_fs(si, sj).value(R.F(r))
      ctx.count("cluster_atoms_checked")
      # the files print 6 (TABEAM) to 16 digits; linear interpolation is exact for c*r up to the printed quantum
      tol = 2e-6 * max(1.0, len(cluster)) + 1e-6 * abs(float(tot_m))
      if not (abs(tot_f - float(tot_m)) <= tol):
        ctx.violation("cluster_density", "atom %d (%s): density from file %.8g, from model %.8g (route=%s target=%s)" % (i, si, tot_f, float(tot_m), route, model["target"]), what="cluster_density")
