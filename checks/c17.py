"""C17 - a failed tabulation never leaves a partial table behind (DESIGN.md section 4, C17)."""
import io
import os
import random

import emit
import monitors
import routes
import spec
from harness import exc_sig

PROPERTY_ID = "C17"
LEVEL = "fault_enumeration"
RULE = ("fault enumeration: for each of the 11 tabulation targets, the three writePotentials types and the five legacy EAM writer functions, bounded models (2-3 pair potentials / 2 elements, "
        "nr,nrho in {5,8}; larger grids and more seeds in the thorough tier) whose pair, density, embedding, dipole and quadrupole callables are "
        "failpoints; the write is run once per position k = 1..N_evals of the failing evaluation (EXHAUSTIVE over k) plus once without a fault. "
        "CLI: formulas that leave their domain at the first / an interior / the last row of each function kind (pymath.sqrt(K-r), pymath.log(r-K), "
        "if(r>K, pymath.acos(2), ...)), run through potable main() in-process (audit hook on open) and as a subprocess under strace. "
        "One case = one (target, model, k-range shard) or one CLI run; non-trivial: a fault fired after at least one successful evaluation, or at "
        "k = 1; distinct = canonical JSON of the case.")
ASSUMPTIONS = ["a failing function evaluation is modelled by the k-th evaluation raising an exception (source-free failpoint in a recording wrapper)",
               "strace -f sees every write() of the potable process; when strace is unavailable that sub-check is reported as skipped (never as held)"]
ANCHORS = ["potable/_actions.py:action_tabulate", "pair_tabulation.py:GULP_PairTabulation.write", "eam_tabulation.py:ADP_EAMTabulation.write",
           "_lammps_writeTABLE.py:writePotentials", "_dlpoly_writeTABLE.py:writePotentials", "_lammpsWriteEAM.py:_writeSetFL", "_dlpoly_writeTABEAM.py:writeTABEAM",
           "pair_tabulation.py:Excel_PairTabulation.write"]
MIN_NONTRIVIAL = {"quick": 40, "thorough": 300}
MIN_COUNTERS = {"faults_injected": 800, "unfaulted_runs": 14, "cli_failures_observed": 20}
EXHAUSTIVE = True
TECHNIQUE = "fault injection: failpoint at every evaluation index with a recording file object (emitted-bytes trace); natural domain failures through the CLI observed via audit hook and strace on OUTPUT_FILE"
LEVEL_TEXT = ("Fault enumeration, exhaustive over the position k of the failing evaluation for each bounded model and every target: the real write() is "
              "run with the k-th function evaluation raising; the recording file object must have received zero bytes (and every emitted chunk of an "
              "un-faulted run must come after the last evaluation, and equal the un-instrumented table); through the CLI, domain failures at first / "
              "interior / last rows must give a non-zero exit status and an empty or absent OUTPUT_FILE with no write() to it before the failure.")
LEVEL_NOTE = "Trusted: the failpoint wrapper forwards everything else unchanged (checked by the k = none run reproducing the plain table byte for byte)."
DESIGN_REF = "DESIGN.md section 4, C17"

PAIR_T = ["LAMMPS", "DLPOLY", "GULP", "excel", "legacy:LAMMPS", "legacy:DL_POLY", "legacy:GULP"]
EAM_T = ["setfl", "setfl_fs", "DL_POLY_EAM", "DL_POLY_EAM_fs", "excel_eam", "excel_eam_fs", "eam_adp",
         "legacyeam:writeSetFL", "legacyeam:writeSetFLFinnisSinclair", "legacyeam:writeTABEAM", "legacyeam:writeTABEAMFinnisSinclair", "legacyeam:writeFuncFL"]
LEGACY_EAM_TARGET = {"writeSetFL": "setfl", "writeSetFLFinnisSinclair": "setfl_fs", "writeTABEAM": "DL_POLY_EAM", "writeTABEAMFinnisSinclair": "DL_POLY_EAM_fs", "writeFuncFL": "setfl"}
KSHARD = 40


def small_pair_model(rng, target, nr):
  sp = spec.species_list(rng, 2, real=1.0)
  pairs = [(sp[0], sp[0]), (sp[0], sp[1]), (sp[1], sp[1])][:rng.choice([2, 3])]
  node = lambda: spec.gen_node(rng, 1, "api", reg0=True, kinds=["form", "sum", "py"], rmax=8.0)
  return {"type": "pair", "target": target, "tab": {"nr": nr, "cutoff": 4.0}, "forms": [], "tables": [], "pair": [[a, b, node()] for a, b in pairs]}


def small_eam_model(rng, target, nr, nrho):
  kind = "fs" if target.endswith("_fs") else ("adp" if target == "eam_adp" else "eam")
  m = spec.gen_eam_model(rng, kind, "api", nspecies=2, target=target, depth=1, underspecified=0, grids={"nr": nr, "nrho": nrho, "cutoff": 4.0, "cutoff_rho": 5.0}, with_forms=False)
  return m


def n_evals_upper(model):
  nr = int(model["tab"]["nr"])
  nrho = int(model["tab"].get("nrho", 0))
  n = len(model.get("pair") or []) * nr * 3
  n += len(model.get("embed") or []) * nrho + (len(model.get("density") or []) + 6) * nr
  n += (len(model.get("dipole") or []) + len(model.get("quadrupole") or [])) * nr
  return n + 8


def gen_cases(rng, tier):
  cases = []
  seeds = 1 if tier == "quick" else 3
  grids = [(5, 5), (8, 5)] if tier == "quick" else [(5, 5), (8, 8), (12, 8), (16, 8)]
  for s in range(seeds):
    for t in PAIR_T + EAM_T:
      for (nr, nrho) in grids:
        if ("DLPOLY" in t or "DL_POLY" in t) and "EAM" not in t and nr % 4:
          nr = 8 if nr < 12 else (nr // 4) * 4
        if t in PAIR_T:
          m = small_pair_model(rng, t.replace("legacy:", "").replace("DL_POLY", "DLPOLY") if t.startswith("legacy:") else t, nr)
        elif t.startswith("legacyeam:"):
          m = small_eam_model(rng, LEGACY_EAM_TARGET[t.split(":")[1]], nr, nrho)
          if t.endswith("writeFuncFL"):
            s0 = m["all_species"][0]
            m["embed"] = [e for e in m["embed"] if e[0] == s0]
            m["density"] = [e for e in m["density"] if e[0] == s0]
            m["pair"] = [[s0, s0, {"k": "form", "name": "bornmayer", "p": [100.0, 0.5]}]]
            m["all_species"] = [s0]
        else:
          m = small_eam_model(rng, t, nr, nrho)
        nmax = n_evals_upper(m)
        for k0 in range(1, nmax + 1, KSHARD):
          cases.append({"kind": "api", "target": t, "model": m, "k0": k0, "k1": min(nmax, k0 + KSHARD - 1), "first": k0 == 1})
  # LARGE tables (megabytes of finished blocks before the failing evaluation): anything that flushes by size, by block
  # count or by elapsed rows only shows there.  One un-faulted streaming observation plus faults at the end, in the middle
  # and just before the end, per target.
  for t in PAIR_T + EAM_T:
    if tier == "quick" and t.startswith("legacy") and not t.endswith(("LAMMPS", "writeSetFL")):
      continue
    big = 24000 if "xcel" not in t else 6000
    if t in PAIR_T:
      nrb = big - big % 4 if ("DLPOLY" in t or "DL_POLY" in t) else big + 1
      m = small_pair_model(rng, t.replace("legacy:", "").replace("DL_POLY", "DLPOLY") if t.startswith("legacy:") else t, nrb)
      a_, b_ = m["pair"][0][0], m["pair"][-1][1]
      m["pair"] = [[a_, a_, {"k": "form", "name": "bornmayer", "p": [100.0, 0.5]}], [a_, b_ if b_ != a_ else "Zz", {"k": "form", "name": "polynomial", "p": [1.0, 0.5]}],
                   [b_ if b_ != a_ else "Zz", b_ if b_ != a_ else "Zz", {"k": "form", "name": "constant", "p": [2.5]}]]
    elif t.startswith("legacyeam:"):
      if t.endswith("writeFuncFL"):
        continue
      m = small_eam_model(rng, LEGACY_EAM_TARGET[t.split(":")[1]], big + 1, big // 2 + 1)
    else:
      m = small_eam_model(rng, t, big + 1, big // 2 + 1)
    cases.append({"kind": "api", "target": t, "model": m, "k0": 1, "k1": 0, "first": True, "big": True})
  ncli = 36 if tier == "quick" else 300
  for i in range(ncli):
    t = (["LAMMPS", "DLPOLY", "GULP", "excel"] + EAM_T)[i % 11]
    cases.append({"kind": "cli", "target": t, "seed": rng.randrange(1 << 30), "where": ["first", "interior", "last"][i % 3], "which": i,
                  "route": "strace" if i % 6 == 0 else "main"})
  # a function that evaluates without raising but returns a value no table can hold (a fractional power of a base
  # that turns negative is a complex number): the failure comes when the value is formatted.  In [Pair] the LAST
  # entry is the one that fails, so that every earlier block is complete by then.  (GULP is left out: its writer
  # formats complex numbers without complaint, so nothing fails.)
  targets = [x for x in (["LAMMPS", "DLPOLY", "excel"] + EAM_T)[:10]]
  for i in range(len(targets) * (1 if tier == "quick" else 6)):
    cases.append({"kind": "cli", "target": targets[i % len(targets)], "seed": rng.randrange(1 << 30), "where": ["interior", "last", "first"][(i // len(targets)) % 3], "which": i,
                  "route": "strace" if i % 7 == 0 else "main", "unwritable": 1})
  return cases


class Plain(object):
  pass


def build(case, wrap):
  t = case["target"]
  m = case["model"]
  if t.startswith("legacy:"):
    import atsim.potentials as ap
    pots = routes.pair_potentials_api(m, wrap)
    typ = t.split(":")[1]

    def write(fp):
      ap.writePotentials(typ, pots, float(m["tab"]["cutoff"]), int(m["tab"]["nr"]), fp)
    return write, False
  if t.startswith("legacyeam:"):
    import atsim.potentials as ap
    fn = getattr(ap, t.split(":")[1])
    pots, eams = routes.eam_api_objects(m, wrap)[:2]
    nr, nrho = int(m["tab"]["nr"]), int(m["tab"]["nrho"])
    dr, drho = float(m["tab"]["cutoff"]) / (nr - 1), float(m["tab"]["cutoff_rho"]) / (nrho - 1)

    def write(fp):
      fn(nrho, drho, nr, dr, eams, pots, fp)
    return write, False
  if t in PAIR_T:
    tab = routes.pair_tab_api(m, wrap)
  else:
    tab = routes.eam_tab_api(m, wrap)
  return tab.write, routes.is_binary(t)


def run_api(case, ctx):
  t = case["target"]
  ctx.cls("target:" + t)
  # un-instrumented table
  try:
    w0, binary = build(case, None)
    fp0 = routes.new_fp("excel" if binary else "LAMMPS")
    w0(fp0)
    plain = fp0.getvalue()
  except Exception as e:
    et, fn = exc_sig(e)
    if isinstance(e, (OverflowError, ZeroDivisionError, ValueError)):
      ctx.count("model_out_of_domain")
      return
    ctx.violation("exception", "bounded model failed without any fault: %s %s" % (et, e), what="exception", exc=et, func=fn)
    return
  # un-faulted instrumented run: same bytes, and no chunk emitted while evaluations are still to come
  log = monitors.EventLog()
  fpn = monitors.Failpoint(None)
  wrap = lambda f, tag: monitors.Spy(f, tag, log, fpn)
  w, binary = build(case, wrap)
  rf = monitors.RecordingFile(log, binary=binary)
  w(rf)
  total = len(log)
  if case["first"]:
    ctx.count("unfaulted_runs")
    same = rf.getvalue() == plain
    if binary and not same:
      import readers
      same = readers.read_xlsx(rf.getvalue())["sheets"] == readers.read_xlsx(plain)["sheets"]
    if not same:
      ctx.violation("instrumented_differs", "un-faulted instrumented run does not reproduce the plain table for %s" % t, what="instrumented_differs")
      return
    for nev, chunk in rf.chunks:
      if nev != total:
        ctx.violation("streaming", "%s: a chunk of %d bytes was emitted after %d of %d evaluations (output is streamed while functions are still being evaluated)" % (t, len(chunk), nev, total),
                      what="streaming", target=t)
        break
  if total == 0:
    ctx.violation("no_evaluations", "no evaluation was observed for %s" % t, what="no_evaluations")
    return
  # fault at every k in this shard (large tables: at the end, just before it and in the middle)
  fired = 0
  ks = range(case["k0"], min(case["k1"], total) + 1)
  if case.get("big"):
    ctx.cls("large_table_%d_bytes" % (1 << (len(plain).bit_length())))
    ks = sorted(set([total, max(1, total - 3), total // 2 + 1, max(1, (3 * total) // 4)]))
  for k in ks:
    log2 = monitors.EventLog()
    # the failing evaluation raises one of the exception types a user function can raise (rotating over k, so that
    # every type meets every kind of function over the shards); StopIteration is the one loops can swallow
    etype = monitors.FAULT_TYPES[(k + case["k0"] // KSHARD) % len(monitors.FAULT_TYPES)]
    fpk = monitors.Failpoint(k, etype)
    ctx.cls("fault_type:" + etype.__name__)
    wrapk = lambda f, tag: monitors.Spy(f, tag, log2, fpk)
    try:
      wk, binary = build(case, wrapk)
    except BaseException as e:
      if "INJECTED-FAULT" in str(e):
        continue   # an evaluation during construction (e.g. spline set-up) - nothing has been written yet
      raise
    rfk = monitors.RecordingFile(log2, binary=binary)
    try:
      wk(rfk)
      raised = False
    except BaseException as e:
      raised = True   # any exception counts as "failed"; what matters is what had been written
    ctx.count("faults_injected")
    if not fpk.fired:
      ctx.violation("failpoint_not_reached", "%s: evaluation %d of %d was never reached" % (t, k, total), what="failpoint_not_reached")
      return
    fired += 1
    if not raised:
      ctx.violation("fault_swallowed", "%s: write() returned normally although evaluation %d failed with %s (%d bytes written, full table %d)" % (t, k, etype.__name__, rfk.nbytes, len(plain)), what="fault_swallowed", target=t)
      return
    # a second write() on the SAME object after the failed one (the fault does not fire again): the object must
    # not have kept half-built state - it emits the whole table, or nothing together with an exception
    if raised and k % 3 == 0:
      rf2 = monitors.RecordingFile(log2, binary=binary)
      try:
        wk(rf2)
        again = rf2.getvalue()
        same = again == plain
        if binary and not same:
          import readers
          try:
            same = readers.read_xlsx(again)["sheets"] == readers.read_xlsx(plain)["sheets"]
          except Exception:
            same = False
        ctx.count("retries_after_fault")
        if not same:
          ctx.violation("partial_table_on_retry", "%s: after evaluation %d of %d failed, calling write() again on the same object emitted %d bytes that are not the table (%d bytes): state of the failed attempt was kept" % (
            t, k, total, len(again), len(plain)), what="partial_table_on_retry", target=t)
          return
      except Exception:
        if rf2.nbytes != 0:
          ctx.violation("partial_table_on_retry", "%s: retry after a fault raised again but had written %d bytes" % (t, rf2.nbytes), what="partial_table_on_retry", target=t)
          return
    if rfk.nbytes != 0:
      whole = rfk.getvalue() == plain
      ctx.violation("partial_table", "%s: evaluation %d of %d failed and %d bytes %s had already been written" % (
        t, k, total, rfk.nbytes, "(the whole table)" if whole else "(a truncated table; full table has %d)" % len(plain)), what="partial_table", target=t)
      return
    # the same position once more, the evaluation now RETURNING a value no table format can hold (a complex number
    # from a fractional power of a negative base, None, a string): the failure then happens while the value is
    # formatted, not while it is computed - writers that evaluate everything first and format block by block
    # fail here with earlier blocks already out
    pv = monitors.POISON_VALUES[(k + case["k0"] // KSHARD) % len(monitors.POISON_VALUES)]
    log3 = monitors.EventLog()
    fpp = monitors.Failpoint(k, poison=pv)
    wrapp = lambda f, tag: monitors.Spy(f, tag, log3, fpp)
    try:
      wp, binary = build(case, wrapp)
    except Exception:
      continue
    rfp = monitors.RecordingFile(log3, binary=binary)
    try:
      wp(rfp)
      ctx.count("unwritable_values_accepted")   # not a failed write: nothing to judge
      continue
    except Exception as e:
      pass
    ctx.count("unwritable_values_injected")
    ctx.cls("unwritable:" + type(pv).__name__)
    if rfp.nbytes != 0:
      ctx.violation("partial_table", "%s: evaluation %d of %d returned %r, write() failed and %d bytes (full table %d) had already been written" % (
        t, k, total, pv, rfp.nbytes, len(plain)), what="partial_table", target=t, variant="unwritable_value")
      return
  ctx.nontrivial(fired > 0)


# ---------------------------------------------------------------- CLI with natural domain failures

def cli_model(case):
  import basemodels as bm
  rng = random.Random(case["seed"])
  t = case["target"]
  info = bm.base_items(rng, t)
  items = info["items"]
  tab = dict((k, v) for k, v in bm.sec(items, "Tabulation")[1])
  nr, cutoff = int(tab["nr"]), float(tab["cutoff"])
  nrho, cut_rho = int(tab.get("nrho", 0) or 0), float(tab.get("cutoff_rho", 0) or 0)
  kind = info["kind"]
  secs = ["Pair"] + ([] if kind == "pair" else ["EAM-Embed", "EAM-Density"]) + (["EAM-ADP-Dipole", "EAM-ADP-Quadrupole"] if kind == "adp" else [])
  sname = secs[rng.randrange(len(secs))]
  s = bm.sec(items, sname)[1]
  kv = s[rng.randrange(len(s))]
  orig = kv[1]
  on_rho = sname == "EAM-Embed"
  n, top = (nrho, cut_rho) if on_rho else (nr, cutoff)
  if t in ("DLPOLY", "DL_POLY") and not on_rho:
    step = top / (n - 4)
    grid = [step * (i + 1) for i in range(n)]
  elif t == "LAMMPS" and not on_rho:
    step = top / (n - 1)
    grid = [step * (i + 1) for i in range(n - 1)]
  else:
    step = top / (n - 1)
    grid = [step * i for i in range(n)]
  idx = {"first": 0, "interior": len(grid) // 2, "last": len(grid) - 1}[case["where"]]
  # fail exactly from grid[idx] on (first/interior) or only at the last point
  K = (grid[idx] + grid[idx - 1]) / 2 if idx > 0 else grid[0] - 0.5 * step - 1e-9
  form = ["fail_sqrt", "fail_log", "fail_if"][case["which"] % 3]
  bm.sec(items, "Potential-Form")[1] += [["fail_sqrt(r, K)", "1.0 + pymath.sqrt(K - r)"], ["fail_log(r, K)", "1.0 + pymath.log(K - r)"],
                                         ["fail_if(r, K)", "if(r > K, pymath.acos(2), 1.0)"]]
  kv[1] = ">=0 %s %r" % (form, K)
  if case.get("unwritable"):
    form = "fail_pow"
    if sname == "Pair":
      kv[1] = orig
      kv = s[-1]
    kv[1] = "pow(as.polynomial %r -1.0, as.constant 0.5)" % K
  return bm.items_text(items), sname, form


def run_cli(case, ctx):
  text, sname, form = cli_model(case)
  t = case["target"]
  ctx.cls("target:" + t)
  ctx.cls("cli_fail_in:" + sname)
  ctx.cls("cli_fail_at:" + case["where"])
  ctx.cls("cli_route:" + case["route"])
  if case["route"] == "strace":
    if not monitors.strace_available():
      ctx.count("strace_unavailable")
      case = dict(case, route="main")
    else:
      import tempfile
      import bootstrap
      tmpdir = tempfile.mkdtemp(prefix="c17-", dir=os.environ.get("VERIF_TMP"))
      inp, outp = os.path.join(tmpdir, "model.aspot"), os.path.join(tmpdir, "OUT.table")
      open(inp, "w").write(text)
      rc, so, se, calls = monitors.strace_run(bootstrap.potable_cmd() + [inp, outp], outp, env=bootstrap.child_env(), cwd=tmpdir)
      ctx.count("strace_runs")
      ctx.count("cli_failures_observed")
      size = os.path.getsize(outp) if os.path.exists(outp) else 0
      writes = [c for c in calls if c[0] in ("write", "pwrite64", "writev") and not c[2].startswith("0")]
      ctx.count("syscalls_on_output_file", len(calls))
      if rc == 0:
        ctx.violation("cli_no_error", "potable exited 0 although %s leaves its domain (%s, %s row)" % (form, sname, case["where"]), what="cli_no_error")
      if size != 0 or writes:
        ctx.violation("cli_partial_table", "%s: OUTPUT_FILE holds %d bytes after the failure; write syscalls on it: %s" % (t, size, writes[:3]), what="cli_partial_table", target=t)
      ctx.nontrivial(True)
      return
  with monitors.OpenAudit() as audit:
    res = routes.potable_main(["@IN", "@OUT"], text)
  ctx.count("cli_failures_observed")
  opened = [e for e in audit.events if e[0] == res["outpath"]]
  ctx.count("audited_opens_of_output_file", len(opened))
  size = len(res["data"]) if res["exists"] and res["data"] else 0
  if res["rc"] == 0:
    ctx.violation("cli_no_error", "potable exited 0 although %s leaves its domain (%s, %s row); %d bytes written" % (form, sname, case["where"], size), what="cli_no_error")
  if size != 0:
    ctx.violation("cli_partial_table", "%s: OUTPUT_FILE holds %d bytes after the failure in %s (%s row)" % (t, size, sname, case["where"]), what="cli_partial_table", target=t)
  ctx.nontrivial(True)


def run_case(case, ctx):
  ctx.cls("kind:" + case["kind"])
  return run_api(case, ctx) if case["kind"] == "api" else run_cli(case, ctx)
