"""C03 - setfl (eam/alloy) files are faithful (DESIGN.md section 4, C03)."""
import io
import itertools
import random

import mpmath as mp

import eamref
import emit
import monitors
import oracle
import readers
import refmodel as R
import routes
import spec
from harness import exc_sig

PROPERTY_ID = "C03"
LEVEL = "exploration"
RULE = ("seeded random EAM models with 1-4 elements (real symbols using the built-in table, invented labels with [Species] data, "
        "partial overrides), embedding/density/pair functions regular at 0 from the full model language, every subset of pair "
        "potentials in either species order, under-specified systems (zero-filled species), grids nr,nrho in {2,3,5,...,300}; "
        "ALL declaration orders of the embedding entries for models of <= 3 elements (each order is a separate case); routes "
        "writeSetFL, SetFL_EAMTabulation, potable setfl / lammps_eam_alloy in-process and CLI. Non-trivial: >= 2 elements or at "
        "least one declared pair potential, with a non-zero sampled value; distinct = canonical JSON of (model, route).")
ASSUMPTIONS = ["mpmath reference evaluator and scipy FITPACK are the trusted base",
               "the fifth header number (cutoff echo) is not constrained by the property and only reported",
               "built-in element table cross-checked against an independent table (Z exact, mass within 0.2%)"]
ANCHORS = ["_lammpsWriteEAM.py:_writeSetFLPairPots", "_lammpsWriteEAM.py:_writeSetFLHeader", "_lammpsWriteEAM.py:_writeSetFLEmbeddingFunction",
           "eam_tabulation.py:SetFL_EAMTabulation.write", "_eam_potential_builder.py:EAM_Potential_Builder._init_eampotentials",
           "_reference_data.py:Reference_Data.get"]
MIN_NONTRIVIAL = {"quick": 20, "thorough": 200}
MIN_COUNTERS = {"values_compared": 1000, "metadata_checked": 50}
TECHNIQUE = "runtime monitoring: setfl token-stream reader (LAMMPS eam/alloy rules) vs mpmath reference and a metadata-precedence model"
LEVEL_TEXT = ("Exploration: real writers run on seeded random EAM models; the emitted file is read as LAMMPS reads it (token stream, "
              "element blocks in header order, lower-triangular r*phi blocks, nothing left over) and every header field, per-element "
              "metadata (override > built-in table > defaults), sampled F(i*drho), rho(i*dr) and r*phi(r) values are compared with a "
              "40-digit reference. Declaration orders of <=3 elements are enumerated completely; the rest is sampled.")
LEVEL_NOTE = "Trusted: mpmath, scipy spline construction, the reader's transcription of the setfl layout, tolerance model of DESIGN.md 3.5."
DESIGN_REF = "DESIGN.md section 4, C03"

ROUTES = ["api_class", "api_legacy", "potable", "potable", "cli"]


def gen_cases(rng, tier):
  n = 110 if tier == "quick" else 1500
  cases = []
  for i in range(n):
    route = rng.choice(ROUTES) if i % 20 else "cli"
    if i % 10 == 4:
      route = "api_class"      # (a fixed share of the cases: write, amend the exposed objects, write again - see below)
    groute = "api" if route.startswith("api") else "potable"
    model = spec.gen_eam_model(rng, "eam", groute, target=rng.choice(["setfl", "lammps_eam_alloy"]))
    if i % 12 == 9:
      model = spec.long_labels(rng, model)          # 'Zirconium_a' / 'Zirconium_b': labels alike in their first 8 and 12 characters
    if i % 12 == 7:
      model = spec.numeric_species(rng, model)      # species labelled '9', '10', '2', '100'
    if i % 12 == 3 and groute == "potable":
      model = spec.ion_labels(rng, model)           # species labelled 'F-', 'Na+', 'Ca2+': 'F-->Ca' in A->B keys
    if i % 12 == 5:
      # [Species] overrides that are exactly zero for a species the built-in element table knows: an override is an override,
      # whatever its truth value
      known = [x for x in (model.get("all_species") or []) if x in spec.ELEMENT_DATA]
      if known:
        d_ = model.setdefault("species", {}).setdefault(known[0], {})
        d_["atomic_number"] = 0
        if i % 24 == 5:
          d_["atomic_mass"] = 0.0
    if groute == "api":
      model["api_containers"] = rng.choice([None, None, "tuple", "generator", "map", "amend_after_write"])
      if i % 10 == 4:
        model["api_containers"] = "amend_after_write"     # generated deterministically: seeded change C03r4 depends on it
      if i % 3 == 1:
        model["api_density_lookup"] = "on_demand"     # functions made on lookup: a new callable object per access
      elif i % 3 == 2 and model.get("api_containers") != "amend_after_write":
        model["api_refit"] = 1                        # the state behind the functions changes between two writes
      if i % 5:
        # functions that return 0-d numpy arrays: fresh ones, integer-typed ones where the value is whole, memoised ones
        # (the same array object again for the same separation - it must come back unchanged); callables that are falsy
        model["api_results"] = [None, "numpy0d", "numpy0d_int", "numpy0d_cached", "falsy_callable"][i % 5]
    cases.append({"route": route, "model": model, "style": rng.randrange(1 << 30)})
    # exhaustive declaration orders for <= 3 elements (potable route)
    if groute == "potable" and len(model["embed"]) in (2, 3) and i % 3 == 0:
      for perm in list(itertools.permutations(range(len(model["embed"]))))[1:]:
        m2 = dict(model)
        m2["embed"] = [model["embed"][k] for k in perm]
        cases.append({"route": "potable", "model": m2, "style": rng.randrange(1 << 30), "perm": list(perm)})
  # species labels with hyphens (Python API): the pairs (A, B-C) and (A-B, C) are different pairs although both read 'A-B-C'
  for i in range(4 if tier == "quick" else 30):
    model = spec.hyphenated_species_model(rng, "eam", rng.choice(["setfl", "lammps_eam_alloy"]))
    cases.append({"route": ["api_class", "api_legacy"][i % 2], "model": model, "style": rng.randrange(1 << 30), "hyphenated": True})
  # discontinuities exactly ON rows of grids that are exact in doubles (first / interior / last row): judged strictly
  for i in range(10 if tier == "quick" else 100):
    route = ["potable", "cli", "api_class", "potable", "api_legacy"][i % 5]
    model = spec.exact_boundary_eam(rng, "eam", rng.choice(["setfl", "lammps_eam_alloy"]), "api" if route.startswith("api") else "potable")
    cases.append({"route": route, "model": model, "style": rng.randrange(1 << 30)})
  # row-count sweep (everything small, m*10^k, 2^k, multiples of 5000, each with neighbours): structure and end values
  szs = spec.edge_sizes(tier, multiple_of=1, lo=2)
  for c0 in range(0, len(szs), 12):
    cases.append({"kind": "sizes", "sizes": szs[c0:c0 + 12], "route": "api_legacy", "model": None, "style": 0})
  return cases


def produce(case, ctx, model, route, rng):
  if model.get("api_refit") and route.startswith("api"):
    # a fitting loop: the table is written, the state behind the functions is refined, the table is written again with the
    # same function objects (and a fresh tabulation object) - the second table holds the refined functions
    ctx.cls("functions_refined_between_two_writes")
    routes.refit_begin()
    try:
      try:
        _produce(case, ctx, model, route, rng)
      except Exception:
        pass
      routes.refit_end()
      return _produce(case, ctx, model, route, rng)
    finally:
      routes.refit_done()
  return _produce(case, ctx, model, route, rng)


def _produce(case, ctx, model, route, rng):
  t = model["tab"]
  if route == "cli":
    text_in = emit.model_text(model, emit.Style(rng))
    res = routes.run_potable(["@IN", "@OUT"], text_in, stale_out=(len(text_in) % 2 == 1))
    if res["rc"] == 1 and "OverflowError" in res["err"]:
      raise OverflowError("potable subprocess: math range error")
    if res["rc"] != 0 or not res["exists"]:
      ctx.violation("cli_failed", "potable rc=%s stderr=%s" % (res["rc"], res["err"][-500:]), what="cli", exc="rc%s" % res["rc"])
      return None
    return res["data"].decode()
  if route == "api_class":
    return routes.write_tab(routes.eam_tab_api(model))
  if route == "api_legacy":
    import atsim.potentials as ap
    pots, eams = routes.vary_containers(model, routes.eam_api_objects(model)[:2])
    nr, nrho = int(t["nr"]), int(t["nrho"])
    out = routes.text_sink()
    fn = ap.writeSetFLFinnisSinclair if model["type"] == "fs" else ap.writeSetFL
    # optional keyword arguments of the legacy writers: an explicit header cutoff (inside or outside the tabulated range)
    # and comment lines.  They belong to the header; no tabulated value may depend on them.
    kw = {}
    c_ = rng.random()
    span = float(t["cutoff"])
    if c_ < 0.25:
      kw["cutoff"] = round(span * rng.choice([0.37, 0.5, 0.81]), 6)
    elif c_ < 0.35:
      kw["cutoff"] = round(span * 1.5, 6)
    c2_ = rng.random()
    if c2_ < 0.3:
      kw["comments"] = ["first comment", "second", "third line"]
    elif c2_ < 0.5:
      # comment lines as readlines() hands them over (each ends in a line break), or one holding a line break inside:
      # the file still has exactly three comment lines before the element line
      kw["comments"] = rng.choice([["first comment\n", "second\n", "third line\n"], ["two\nlines", "second"], ["a\r\n", "b\r\n", "c\r\n"], ["only one\n"]])
      ctx.cls("legacy_keyword:comments_with_line_breaks")
    for k_ in kw:
      ctx.cls("legacy_keyword:" + k_)
    fn(nrho, float(t["cutoff_rho"]) / (nrho - 1), nr, float(t["cutoff"]) / (nr - 1), eams, pots, out, **kw)
    return out.getvalue()
  tab = routes.read_config(emit.model_text(model, emit.Style(rng)))
  return routes.write_tab(tab)


def check_header_and_meta(ctx, p, ref, model, route):
  nr, dr, nrho, drho = ref.grids()
  order = ref.order
  if p["names"] != order:
    ctx.violation("element_order", "header names %s, expected %s" % (p["names"], order), what="element_order")
    return False
  if len(set(p["names"])) != len(p["names"]):
    ctx.violation("element_dup", "element named twice: %s" % p["names"], what="element_dup")
  if p["nrho"] != nrho or p["nr"] != nr:
    ctx.violation("header_counts", "header Nrho=%d Nr=%d, expected %d %d" % (p["nrho"], p["nr"], nrho, nr), what="header_counts")
    return False
  oracle.check_token(ctx, "header_drho", p["drho"], R.F(drho), 0, rel=1e-15, fmt="setfl")
  oracle.check_token(ctx, "header_dr", p["dr"], R.F(dr), 0, rel=1e-15, fmt="setfl")
  ctx.note("cutoff echo=%s (nr*dr=%s, cutoff=%s)" % (p["cutoff"], float(dr * nr), model["tab"]["cutoff"]))
  for el in p["elements"]:
    Z, mass, exact, a0, lat = spec.eam_expected_metadata(model, el["name"])
    ctx.count("metadata_checked")
    if Z is None or mass is None:
      continue
    if el["Z"] != Z:
      ctx.violation("meta_Z", "%s: Z=%d expected %d" % (el["name"], el["Z"], Z), what="meta_Z")
    oracle.check_token(ctx, "meta_mass", el["mass"], R.F(mass), 0, rel=1e-15 if exact else 2e-3, where=el["name"])
    oracle.check_token(ctx, "meta_a0", el["a0"], R.F(a0), 0, rel=1e-15, where=el["name"])
    if el["lattice"] != lat:
      ctx.violation("meta_lattice", "%s: lattice %r expected %r" % (el["name"], el["lattice"], lat), what="meta_lattice")
  return True


def run_case(case, ctx):
  if case.get("kind") == "sizes":
    import sizesweep
    ctx.cls("kind:row_count_sweep")
    for n_ in case["sizes"]:
      ctx.cls(sizesweep.size_class(n_))
      if not (sizesweep.check_setfl(ctx, n_)):
        return
    ctx.nontrivial(True)
    return
  model = case["model"]
  route = case["route"]
  potable = not route.startswith("api")
  rng = random.Random(case["style"])
  ctx.cls("route:" + route)
  if model.get("api_containers"):
    ctx.cls("api_containers:" + model["api_containers"])
  ctx.cls("target:" + model["target"])
  ctx.cls("nelements:%d" % len(spec.eam_element_order(model)))
  if case.get("perm"):
    ctx.cls("declaration_order_enumerated")
  ref = eamref.EamRef(model, potable)
  nr, dr, nrho, drho = ref.grids()
  ridx = oracle.sample_rows(nr, rng, 14)
  rhoidx = oracle.sample_rows(nrho, rng, 14)
  if case.get("hyphenated"):
    ctx.cls("species_labels_with_hyphens")
  strict = bool(model.get("exact_rows"))
  if strict:
    ctx.cls("exact_boundary_on_rows")
    ridx = sorted(set(ridx) | set(k for k in model["exact_rows"]["r"] if k < nr))
    rhoidx = sorted(set(rhoidx) | set(k for k in model["exact_rows"]["rho"] if k < nrho))
  if not ref.in_domain([R.F(dr * i) for i in ridx], [R.F(drho * i) for i in rhoidx]):
    ctx.count("out_of_domain")
    return
  try:
    del routes.NUMPY0D_CACHED[:]
    text = produce(case, ctx, model, route, rng)
  except OverflowError as e:
    if eamref.overflow_is_out_of_domain(ref.all_functions()):
      ctx.count("out_of_domain")
      return
    et, fn = exc_sig(e)
    ctx.violation("exception", "valid model failed: %s: %s" % (et, e), what="exception", exc=et, func=fn)
    return
  except Exception as e:
    et, fn = exc_sig(e)
    ctx.violation("exception", "valid model failed: %s: %s" % (et, e), what="exception", exc=et, func=fn)
    return
  if text is None:
    return
  ctx.count("executions")
  if model.get("api_results"):
    ctx.cls("api_results:" + model["api_results"])
    if not routes.numpy0d_mutations(ctx):
      return
  try:
    p = readers.read_setfl(text)
  except readers.FormatError as e:
    ctx.violation("format", str(e), what="format")
    return
  if not check_header_and_meta(ctx, p, ref, model, route):
    return
  nz = False
  for el in p["elements"]:
    s = el["name"]
    eamref.check_series(ctx, "embed", el["F"], ref.embed(s), drho, rhoidx, "F[%s] route=%s" % (s, route), fmt="setfl", strict=strict)
    eamref.check_series(ctx, "density", el["rho"], ref.density(s), dr, ridx, "rho[%s] route=%s" % (s, route), fmt="setfl", strict=strict)
    nz = nz or any(float(t) != 0.0 for t in el["F"]) or any(float(t) != 0.0 for t in el["rho"])
  order = ref.order
  declared = 0
  for (i, j), toks in p["rphi"].items():
    a, b = order[i], order[j]
    o = ref.pairlike("pair", a, b)
    if ref.declared_pair("pair", a, b):
      declared += 1
      ctx.cls("pair_declared")
    else:
      ctx.cls("pair_zero_filled")
    eamref.check_series(ctx, "rphi", toks, o, dr, ridx, "r*phi[%s,%s] route=%s" % (a, b, route), scale_r=True, fmt="setfl", strict=strict)
  ctx.count("blocks", 2 * len(order) + len(p["rphi"]))
  ctx.nontrivial(nz and (len(order) >= 2 or declared >= 1))
