"""C19 - GULP, ADP, funcfl and Excel targets carry the same functions on the same grids (DESIGN.md section 4, C19)."""
import io
import random

import mpmath as mp

import eamref
import emit
import oracle
import readers
import refmodel as R
import routes
import spec
from harness import exc_sig

PROPERTY_ID = "C19"
LEVEL = "exploration"
RULE = ("four sub-classes, seeded: (gulp) pair models regular at r = 0 through GULP_PairTabulation, writePotentials('GULP') and potable; (adp) ADP "
        "models with any subset of dipole/quadrupole pairs in either order through ADP_EAMTabulation and potable eam_adp, compared with the "
        "setfl bytes of the same model; (funcfl) one-element EAM models with phi >= 0 through writeFuncFL; (excel) pair / EAM / FS models "
        "through the Excel tabulation classes and potable excel, excel_eam, excel_eam_fs (<= 60 rows). Non-trivial: at least one non-zero, "
        "non-constant function (gulp/excel: >= 1 potential; adp: a declared dipole or quadrupole with >= 2 elements or a declared one); "
        "distinct = canonical JSON of (kind, model, route).")
ASSUMPTIONS = ["mpmath reference and scipy FITPACK trusted", "funcfl conversion constants 27.2 and 0.529 as documented in the writer",
               "ADP prefix compared byte for byte with SetFL_EAMTabulation output of the same objects"]
ANCHORS = ["pair_tabulation.py:GULP_PairTabulation._write_pot", "pair_tabulation.py:_r_value_iterator", "eam_tabulation.py:ADP_EAMTabulation.write",
           "_lammpsWriteEAM.py:writeFuncFL", "_lammpsWriteEAM.py:_writeValueBlock", "pair_tabulation.py:Excel_PairTabulation._populate_worksheet",
           "eam_tabulation.py:Excel_EAMTabulation._add_eam_embed", "_tabulation_factories.py:ADP_EAMTabulationFactory.extract_tabulation_args"]
MIN_NONTRIVIAL = {"quick": 40, "thorough": 500}
MIN_COUNTERS = {"values_compared": 3000, "gulp_blocks": 30, "adp_files": 15, "funcfl_files": 15, "xlsx_sheets": 30}
TECHNIQUE = "runtime monitoring: GULP / adp / funcfl / xlsx consumer-side readers vs mpmath reference; ADP == setfl-prefix byte differential"
LEVEL_TEXT = ("Exploration: the secondary writers are run on seeded random models; their output is parsed by consumer-side readers and block "
              "structure, headers, grids and sampled values are compared with a 40-digit reference; an ADP file must start with exactly the "
              "bytes the setfl writer emits for the same model and continue with unscaled dipole then quadrupole blocks and nothing else; "
              "funcfl effective charges are converted back to the pair potential; every sampled Excel cell equals the function at that row.")
LEVEL_NOTE = "Trusted: mpmath, scipy, openpyxl (reading), the readers' transcription of the formats."
DESIGN_REF = "DESIGN.md section 4, C19"


def gen_cases(rng, tier):
  n = 40 if tier == "quick" else 550
  cases = []
  for i in range(n):
    route = rng.choice(["api_class", "api_legacy", "potable", "potable", "cli" if i % 10 == 0 else "potable"])
    groute = "api" if route.startswith("api") else "potable"
    m = spec.gen_pair_model(rng, groute, target="GULP", reg0=True, nr_choices=[2, 3, 5, 8, 21, 50, 101, 200])
    if groute == "api" and i % 3 == 0:
      m["api_variant"] = "energy_override"
    if groute == "api" and i % 3 != 0 and i % 5:
      m["api_results"] = [None, "numpy0d", "numpy0d_int", "numpy0d_cached", "falsy_callable"][i % 5]
    cases.append({"kind": "gulp", "route": route, "model": m, "style": rng.randrange(1 << 30)})
  # decimal grids: the last row is the cutoff itself (a discontinuity just above it, table data ending AT it), and a
  # discontinuity 8 ulps to either side of an upper row - judged strictly at that row
  for i in range(12 if tier == "quick" else 60):
    v = ["last_row_at_cutoff", "table_ends_at_cutoff", "below_row", "above_row"][i % 4]
    m, k = spec.near_row_boundary_model(rng, "GULP", v, i // 4, grids=spec.MULDIV_GRIDS if i % 8 < 4 else None)
    cases.append({"kind": "gulp", "route": ["api_class", "potable", "api_legacy"][(i // 4) % 3], "model": m, "style": rng.randrange(1 << 30), "strict_rows": [k], "near_row_boundary": v})
  for i in range(n):
    route = rng.choice(["api_class", "potable", "potable", "cli" if i % 10 == 0 else "potable"])
    groute = "api" if route.startswith("api") else "potable"
    m = spec.gen_eam_model(rng, "adp", groute, target="eam_adp")
    if groute == "api":
      m["api_containers"] = rng.choice([None, None, "tuple", "generator", "map", "amend_after_write"])
    if groute == "api" and i % 5:
      m["api_results"] = [None, "numpy0d", "numpy0d_int", "numpy0d_cached", "falsy_callable"][i % 5]
    cases.append({"kind": "adp", "route": route, "model": m, "style": rng.randrange(1 << 30)})
  for i in range(n):
    m = spec.gen_eam_model(rng, "eam", "api", nspecies=1, target="setfl", underspecified=0)
    # phi >= 0 so that the effective charge sqrt(phi r / 27.2 / 0.529) exists
    sp_ = m["all_species"][0]
    phi = rng.choice([{"k": "form", "name": "bornmayer", "p": [spec.rfloat(rng, 1, 900.0), spec.rfloat(rng, 0.2, 1.0)]},
                      {"k": "form", "name": "polynomial", "p": [spec.rfloat(rng, 0.0, 3.0), spec.rfloat(rng, 0.0, 1.0), spec.rfloat(rng, 0.0, 0.3)]},
                      {"k": "form", "name": "exp_spline", "p": [spec.rfloat(rng, -1, 1), spec.rfloat(rng, -0.5, 0.1), 0.0, 0.0, 0.0, 0.0, spec.rfloat(rng, 0.0, 2.0)]},
                      {"k": "sum", "a": [{"k": "form", "name": "constant", "p": [spec.rfloat(rng, 0.0, 2.0)]}, {"k": "form", "name": "morse", "p": [1.2, 2.0, -spec.rfloat(rng, 0.1, 2.0)]}]}])
    m["pair"] = [[sp_, sp_, phi]]
    if i % 5:
      m["api_results"] = [None, "numpy0d", "numpy0d_int", "numpy0d_cached", "falsy_callable"][i % 5]
    if i % 8 == 5:
      # a pair potential with a negative region: an ordinary well, or a shallow one under a core twelve or more orders of
      # magnitude larger ("rounding noise" relative to the table's largest value it is not)
      phi = rng.choice([{"k": "form", "name": "morse", "p": [1.2, 2.0, spec.rfloat(rng, 0.1, 2.0)]},
                        {"k": "sum", "a": [{"k": "form", "name": "bornmayer", "p": [rng.choice([1e14, 1e16, 1e18]), 0.1]}, {"k": "form", "name": "constant", "p": [-spec.rfloat(rng, 1e-4, 1e-2, 6)]}]},
                        {"k": "sum", "a": [{"k": "form", "name": "bornmayer", "p": [1e15, 0.08]}, {"k": "form", "name": "morse", "p": [1.2, 2.0, 1e-3]}]}])
      m["pair"] = [[sp_, sp_, phi]]
    cases.append({"kind": "funcfl", "route": "api_legacy", "model": m, "style": rng.randrange(1 << 30),
                  "title": ["title %d", "title %d", "title %d", "title %d\n", "two\nlines %d"][i % 5] % i})
  for i in range(n):
    kind = ["pair", "eam", "fs"][i % 3]
    route = rng.choice(["api_class", "potable", "potable", "cli" if i % 10 == 0 else "potable"])
    groute = "api" if route.startswith("api") else "potable"
    if kind == "pair":
      m = spec.gen_pair_model(rng, groute, target="excel", reg0=True, nr_choices=[2, 3, 5, 9, 21, 60])
      if groute == "api" and i % 2 == 0:
        m["api_variant"] = "energy_override"
    else:
      m = spec.gen_eam_model(rng, kind, groute, target="excel_eam" if kind == "eam" else "excel_eam_fs",
                             grids={"nr": rng.choice([2, 3, 5, 9, 21, 60]), "nrho": rng.choice([2, 3, 5, 9, 30])})
      if groute == "api":
        m["api_containers"] = rng.choice([None, None, "tuple", "generator", "map", "amend_after_write"])
    if groute == "api" and i % 5:
      m["api_results"] = [None, "numpy0d", "numpy0d_int", "numpy0d_cached", "falsy_callable"][i % 5]
    if i % 5 == 2:
      # grids on which (n-1)*cutoff/(n-1) does not give the cutoff back: the last row of every sheet is the cutoff
      g1, g2 = spec.MULDIV_GRIDS[(i // 5) % len(spec.MULDIV_GRIDS)], spec.MULDIV_GRIDS[(i // 5 + 3) % len(spec.MULDIV_GRIDS)]
      m["tab"]["cutoff"], m["tab"]["nr"] = g1
      if "nrho" in m["tab"]:
        m["tab"]["cutoff_rho"], m["tab"]["nrho"] = g2
    cases.append({"kind": "excel", "route": route, "model": m, "style": rng.randrange(1 << 30)})
  # look-alike labels, deterministically: 'Ce-O' next to 'Ce+-O' ('+' collates before '-'): the order of the species
  # tuples and the order of the 'A-B' strings differ, so a column filled in one order and headed in the other shows
  for i in range(6 if tier == "quick" else 40):
    a = spec.label(rng, [], 1.0, 3)
    x = spec.label(rng, [a], 1.0, 3)
    a2 = a + rng.choice(["+", "+", "2", "_", "+2"])
    pairs = [[a, x], [a2, x], [x, x], [a, a2]]
    rng.shuffle(pairs)
    route = ["api_class", "potable", "cli", "potable"][i % 4]
    m = {"type": "pair", "target": "excel", "tab": {"nr": rng.choice([3, 5, 9]), "cutoff": rng.choice([4.0, 6.5])}, "forms": [], "tables": [],
         "pair": [[p_, q_, {"k": "form", "name": "polynomial", "p": [spec.rfloat(rng, -5, 5), spec.rfloat(rng, 0.1, 2.0)]}] for p_, q_ in pairs]}
    cases.append({"kind": "excel", "route": route, "model": m, "style": rng.randrange(1 << 30)})
  # row-count sweep (everything small, m*10^k, 2^k, multiples of 5000, each with neighbours): structure and end values
  szs = spec.edge_sizes(tier, multiple_of=1, lo=2)
  for c0 in range(0, len(szs), 12):
    cases.append({"kind": "sizes", "sizes": szs[c0:c0 + 12], "route": "api_legacy", "model": None, "style": 0})
  return cases


def fail_exc(ctx, e, what="exception"):
  et, fn = exc_sig(e)
  if isinstance(e, OverflowError):
    # generator overshoot (an intermediate result beyond double range); the reference pre-screen only samples
    ctx.count("out_of_domain_overflow")
    return
  ctx.violation(what, "valid model failed: %s: %s" % (et, e), what=what, exc=et, func=fn)


def potable_out(ctx, model, route, rng):
  text = emit.model_text(model, emit.Style(rng))
  if route == "cli":
    res = routes.run_potable(["@IN", "@OUT"], text)
    if res["rc"] == 1 and "OverflowError" in res["err"]:
      ctx.count("out_of_domain_overflow")
      return None
    if res["rc"] != 0 or not res["exists"]:
      ctx.violation("cli_failed", "potable rc=%s stderr=%s" % (res["rc"], res["err"][-500:]), what="cli", exc="rc%s" % res["rc"])
      return None
    return res["data"]
  out = routes.write_tab(routes.read_config(text))
  return out if isinstance(out, bytes) else out.encode()


# ------------------------------------------------------------------ GULP

def run_gulp(case, ctx, rng):
  model, route = case["model"], case["route"]
  potable = not route.startswith("api")
  M = R.Model(model["forms"], model["tables"])
  cutoff, nr = float(model["tab"]["cutoff"]), int(model["tab"]["nr"])
  dr = oracle.grid(cutoff, nr - 1)
  idx = sorted(set(oracle.sample_rows(nr, rng, 16)) | set(case.get("strict_rows", ())))
  if case.get("near_row_boundary"):
    ctx.cls("near_row_boundary:" + case["near_row_boundary"])
  refs = [oracle.ValueOracle(M, spec.wrap_potable(n) if potable else n) for _, _, n in model["pair"]]
  try:
    for o in refs:
      for i in idx:
        if abs(o.value(R.F(dr * i))) > mp.mpf("1e100"):
          raise R.RefDomainError("huge")
  except (R.RefDomainError, ZeroDivisionError, ValueError, OverflowError):
    ctx.count("out_of_domain")
    return
  try:
    if route == "api_class":
      data = routes.write_tab(routes.pair_tab_api(model)).encode()
    elif route == "api_legacy":
      import atsim.potentials as ap
      out = routes.text_sink()
      ap.writePotentials("GULP", routes.pair_potentials_api(model), cutoff, nr, out)
      data = out.getvalue().encode()
    else:
      data = potable_out(ctx, model, route, rng)
      if data is None:
        return
  except Exception as e:
    return fail_exc(ctx, e)
  try:
    blocks = readers.read_gulp(data.decode())
  except readers.FormatError as e:
    ctx.violation("gulp_format", str(e), what="gulp_format")
    return
  if len(blocks) != len(model["pair"]):
    ctx.violation("gulp_block_count", "%d blocks for %d potentials" % (len(blocks), len(model["pair"])), what="gulp_block_count")
    return
  nz = False
  for b, (a, bb, node), o in zip(blocks, model["pair"], refs):
    ctx.count("gulp_blocks")
    where = "GULP %s-%s route=%s" % (a, bb, route)
    if (b["a"], b["b"]) != (a, bb):
      ctx.violation("gulp_head", "block headed %s %s for %s-%s" % (b["a"], b["b"], a, bb), what="gulp_head")
    oracle.check_token(ctx, "gulp_cutoff", b["cutoff_tok"], R.F(cutoff), 0, rel=1e-15, where=where)
    if len(b["rows"]) != nr:
      ctx.violation("gulp_rows", "%s: %d rows, expected nr=%d" % (where, len(b["rows"]), nr), what="gulp_rows")
      continue
    for i, (e_tok, r_tok) in enumerate(b["rows"]):
      ok, diff, tol = R.close(float(r_tok), R.F(dr * i), q=R.token_quantum(r_tok), rel=1e-12)
      if not ok:
        ctx.violation("gulp_r", "%s row %d: separation %s expected %s (columns are 'energy separation')" % (where, i, r_tok, float(dr * i)), what="gulp_r")
        break
    for i in idx:
      oracle.check_value(ctx, "gulp_energy", b["rows"][i][0], o, R.F(dr * i), where="%s row %d" % (where, i), fmt="gulp", strict=i in case.get("strict_rows", ()))
    nz = nz or len(set(e for e, _ in b["rows"])) > 1
  ctx.nontrivial(nz)


# ------------------------------------------------------------------ ADP

def run_adp(case, ctx, rng):
  model, route = case["model"], case["route"]
  potable = not route.startswith("api")
  ref = eamref.EamRef(model, potable)
  nr, dr, nrho, drho = ref.grids()
  ridx = oracle.sample_rows(nr, rng, 10)
  rhoidx = oracle.sample_rows(nrho, rng, 8)
  if not ref.in_domain([R.F(dr * i) for i in ridx], [R.F(drho * i) for i in rhoidx]):
    ctx.count("out_of_domain")
    return
  try:
    if route == "api_class":
      tab = routes.eam_tab_api(model)
    elif route == "cli":
      tab = None
    else:
      tab = routes.read_config(emit.model_text(model, emit.Style(rng)))
    if tab is not None:
      data = routes.write_tab(tab)
      # the setfl file of the same model (same objects)
      from atsim.potentials.eam_tabulation import SetFL_EAMTabulation
      if route == "api_class" and model.get("api_containers") in ("generator", "map"):
        p2, e2 = routes.eam_api_objects(model)[:2]    # a one-shot iterable has served its one write: same model, fresh objects
      else:
        p2, e2 = tab.potentials, tab.eam_potentials
      setfl = routes.write_tab(SetFL_EAMTabulation(p2, e2, tab.cutoff, tab.nr, tab.cutoff_rho, tab.nrho))
    else:
      text = emit.model_text(model, emit.Style(rng))
      d1 = potable_out(ctx, model, "cli", random.Random(0))
      m2 = {k: v for k, v in model.items() if k not in ("dipole", "quadrupole")}
      m2["target"] = "setfl"
      m2["type"] = "eam"
      d2 = potable_out(ctx, m2, "cli", random.Random(0))
      if d1 is None or d2 is None:
        return
      data, setfl = d1.decode(), d2.decode()
  except Exception as e:
    return fail_exc(ctx, e)
  ctx.count("adp_files")
  if not data.startswith(setfl):
    ctx.violation("adp_prefix", "the ADP file does not start with the setfl file of the same model (first difference at byte %d)" % next((i for i, (x, y) in enumerate(zip(data, setfl)) if x != y), min(len(data), len(setfl))), what="adp_prefix")
    return
  try:
    p = readers.read_setfl(data, adp=True)
    ps = readers.read_setfl(setfl)
  except readers.FormatError as e:
    ctx.violation("adp_format", str(e), what="adp_format")
    return
  order = ref.order
  if p["names"] != order:
    ctx.violation("adp_element_order", "%s vs %s" % (p["names"], order), what="adp_element_order")
    return
  nz = False
  declared = 0
  for key, blk in (("dipole", "u"), ("quadrupole", "w")):
    for (i, j), toks in p[blk].items():
      a, b = order[i], order[j]
      o = ref.pairlike(key, a, b)
      if ref.declared_pair(key, a, b):
        declared += 1
      eamref.check_series(ctx, "adp_" + blk, toks, o, dr, ridx, "%s[%s,%s] route=%s" % (blk, a, b, route), scale_r=False, fmt="setfl")
      nz = nz or any(float(t) != 0.0 for t in toks)
  # a light check of the setfl part as well (full check is C03)
  for (i, j), toks in p["rphi"].items():
    eamref.check_series(ctx, "adp_rphi", toks, ref.pairlike("pair", order[i], order[j]), dr, ridx[:4], "r*phi[%s,%s]" % (order[i], order[j]), scale_r=True)
  ctx.nontrivial(nz and declared >= 1)


# ------------------------------------------------------------------ funcfl

def run_funcfl(case, ctx, rng):
  import atsim.potentials as ap
  model = case["model"]
  ref = eamref.EamRef(model, False)
  t = model["tab"]
  nr, nrho = int(t["nr"]), int(t["nrho"])
  dr_f = float(t["cutoff"]) / (nr - 1)
  drho_f = float(t["cutoff_rho"]) / (nrho - 1)
  s = ref.order[0]
  from fractions import Fraction
  dr, drho = Fraction(dr_f), Fraction(drho_f)
  ridx = oracle.sample_rows(nr, rng, 14)
  rhoidx = oracle.sample_rows(nrho, rng, 10)
  phi = ref.pairlike("pair", s, s)
  try:
    if not ref.in_domain([R.F(dr * i) for i in ridx], [R.F(drho * i) for i in rhoidx]):
      raise R.RefDomainError("domain")
    negative = False
    for i in range(1, nr):      # (the row r = 0 holds sqrt(phi * 0) = 0 whatever phi(0) is)
      v_ = phi.value(R.F(dr * i))
      if v_ < 0:
        if v_ < -mp.mpf("1e-6") * max(phi.mag(R.F(dr * i)), mp.mpf("1e-30")):
          negative = True      # clearly negative (not a rounding residue of a sum that is zero)
        else:
          raise R.RefDomainError("phi < 0 by a rounding residue")
  except (R.RefDomainError, ZeroDivisionError, ValueError, OverflowError):
    ctx.count("out_of_domain")
    return
  try:
    pots, eams = routes.vary_containers(model, routes.eam_api_objects(model)[:2])
    out = routes.text_sink()
    ap.writeFuncFL(nrho, drho_f, nr, dr_f, eams, pots, out, case["title"])
    text = out.getvalue()
  except Exception as e:
    if negative:
      # the format stores sqrt(phi r / 27.2 / 0.529): a pair potential that is negative somewhere cannot be held, refusing is right
      ctx.count("funcfl_negative_phi_refused")
      ctx.cls("funcfl_negative_pair_potential")
      ctx.nontrivial(True)
      return
    return fail_exc(ctx, e)
  if negative:
    ctx.violation("funcfl_charge", "phi(r) is negative at some rows (the effective-charge column cannot hold that) but a funcfl file of %d bytes was written without complaint" % len(text), what="funcfl_charge", mech="negative_phi_written")
    return
  ctx.count("funcfl_files")
  try:
    p = readers.read_funcfl(text)
  except readers.FormatError as e:
    ctx.violation("funcfl_format", str(e), what="funcfl_format")
    return
  if p["title"] != " ".join(case["title"].splitlines()):      # (the title is one line of the file, whatever the string holds)
    ctx.violation("funcfl_title", "title %r" % p["title"], what="funcfl_title")
  if any(k != 5 for k in p["per_line"][:-1]) and not (nrho % 5 or nr % 5):
    ctx.violation("funcfl_layout", "values per line: %s" % p["per_line"][:10], what="funcfl_layout")
  if p["nrho"] != nrho or p["nr"] != nr:
    ctx.violation("funcfl_header_counts", "header nrho=%d nr=%d, arguments %d %d" % (p["nrho"], p["nr"], nrho, nr), what="funcfl_header")
    return
  oracle.check_token(ctx, "funcfl_header", p["drho_tok"], R.F(drho), 0, rel=1e-15, where="drho")
  oracle.check_token(ctx, "funcfl_header", p["dr_tok"], R.F(dr), 0, rel=1e-15, where="dr")
  oracle.check_token(ctx, "funcfl_header", p["cutoff_tok"], R.F(dr * (nr - 1)), 0, rel=1e-15, where="cutoff = dr*(nr-1)")
  # "the header declares the grid actually tabulated": a reader rebuilds the grid as i * (declared step), so the declared
  # step has to reproduce the last tabulated point (and the last density point), not just agree to six decimals
  for nm, tok, step, npts in (("dr", p["dr_tok"], dr, nr), ("drho", p["drho_tok"], drho, nrho)):
    end_decl, end_true = float(tok) * (npts - 1), float(step) * (npts - 1)
    ctx.count("funcfl_declared_grid_ends")
    if not (abs(end_decl - end_true) <= 1e-9 * max(1.0, abs(end_true))):
      ctx.violation("funcfl_declared_grid", "header declares %s = %s: its grid ends at %.10g, the tabulated grid (step %.17g, %d points) at %.10g" % (
        nm, tok, end_decl, float(step), npts, end_true), what="funcfl_declared_grid", mech="header_step_six_decimals" if len(tok.split(".")[-1]) == 6 and "e" not in tok.lower() else "grid")
  Z, mass, exact, a0, lat = spec.eam_expected_metadata(model, s)
  if p["Z"] != Z or p["lattice"] != lat:
    ctx.violation("funcfl_meta", "Z=%r lattice=%r expected %r %r" % (p["Z"], p["lattice"], Z, lat), what="funcfl_meta")
  eamref.check_series(ctx, "funcfl_F", p["F"], ref.embed(s), drho, rhoidx, "F", fmt="funcfl")
  eamref.check_series(ctx, "funcfl_rho", p["rho"], ref.density(s), dr, ridx, "rho", fmt="funcfl")
  nz = False
  for i in ridx:
    if i == 0:
      continue
    r = R.F(dr * i)
    z = R.F(float(p["Zr"][i]))
    back = z * z * mp.mpf("27.2") * mp.mpf("0.529") / r
    want = phi.value(r)
    q = R.token_quantum(p["Zr"][i])
    # d(back)/dz = 2 z k / r : propagate the printed quantum of z
    tol = abs(2 * z * mp.mpf("27.2") * mp.mpf("0.529") / r) * q + mp.mpf("1e-9") * abs(want) + mp.mpf("1e-13") * phi.mag(r) + q * q * 15 / r
    ctx.count("values_compared")
    if not (abs(back - want) <= tol):
      ctx.violation("funcfl_charge", "Z(r)^2*27.2*0.529/r = %s but phi(r) = %s at i=%d r=%s" % (mp.nstr(back, 12), mp.nstr(want, 12), i, mp.nstr(r, 8)), what="funcfl_charge")
    if want != 0:
      nz = True
  ctx.nontrivial(nz)


# ------------------------------------------------------------------ Excel

def excel_dest(case, ctx, tab_):
  """The destination of the workbook rotates with the case: what write_tab() picks (BytesIO / open_fp onto an older file),
  a file the caller opened in append mode, a file opened 'w+b'."""
  d = ["default", "ab", "w+b", "default", "a+b"][case.get("style", 0) % 5]
  ctx.cls("xlsx_destination:" + d)
  return routes.write_tab(tab_) if d == "default" else routes.write_to_opened_file(tab_, d)


def run_excel(case, ctx, rng):
  model, route = case["model"], case["route"]
  potable = not route.startswith("api")
  kind = model["type"]
  t = model["tab"]
  nr = int(t["nr"])
  cutoff = float(t["cutoff"])
  dr = oracle.grid(cutoff, nr - 1)
  M = R.Model(model["forms"], model["tables"])
  ridx = oracle.sample_rows(nr, rng, 10)
  if kind == "pair":
    refs = {}
    for a, b, n in model["pair"]:
      refs["%s-%s" % tuple(sorted([a, b]))] = oracle.ValueOracle(M, spec.wrap_potable(n) if potable else n)
    try:
      for o in refs.values():
        for i in ridx:
          if abs(o.value(R.F(dr * i))) > mp.mpf("1e150"):
            raise R.RefDomainError("huge")
    except (R.RefDomainError, ZeroDivisionError, ValueError, OverflowError):
      ctx.count("out_of_domain")
      return
  else:
    ref = eamref.EamRef(model, potable)
    nrho = int(t["nrho"])
    drho = oracle.grid(float(t["cutoff_rho"]), nrho - 1)
    rhoidx = oracle.sample_rows(nrho, rng, 8)
    if not ref.in_domain([R.F(dr * i) for i in ridx], [R.F(drho * i) for i in rhoidx]):
      ctx.count("out_of_domain")
      return
  try:
    live = None
    if route == "api_class":
      tab_ = routes.pair_tab_api(model) if kind == "pair" else routes.eam_tab_api(model)
      data = excel_dest(case, ctx, tab_)
      live = tab_.workbook
    elif route == "potable":
      text_ = emit.model_text(model, emit.Style(rng))
      tab_ = routes.read_config(text_)
      data = excel_dest(case, ctx, tab_)
      live = tab_.workbook
    else:
      data = potable_out(ctx, model, route, rng)
      if data is None:
        return
    if live is not None:
      # the workbook object holds the doubles themselves (the xlsx file keeps 16 significant digits): the first column of
      # every sheet ends at the cutoff exactly, not at a rounding of (n-1)*cutoff/(n-1) that may lie beyond it
      cut_r, cut_rho = float(model["tab"]["cutoff"]), float(model["tab"].get("cutoff_rho", 0) or 0)
      for ws_ in live.worksheets:
        last = [c_.value for c_ in list(ws_.columns)[0]][-1]
        want_ = cut_rho if ws_.title == "EAM-Embed" else cut_r
        ctx.count("xlsx_last_rows_checked")
        if isinstance(last, (int, float)) and int(model["tab"]["nr"]) >= 2 and float(last) != want_:
          ctx.violation("xlsx_grid", "sheet %s of the workbook object ends at %r, the cutoff is %r" % (ws_.title, float(last), want_), what="xlsx_grid", mech="last_row_not_the_cutoff")
          return
  except Exception as e:
    return fail_exc(ctx, e)
  try:
    wb = readers.read_xlsx(data)
  except Exception as e:
    ctx.violation("xlsx_unreadable", "%s: %s" % (type(e).__name__, e), what="xlsx_unreadable")
    return
  want_sheets = ["Pair"] if kind == "pair" else ["Pair", "EAM-Density", "EAM-Embed"]
  if wb["order"] != want_sheets:
    ctx.violation("xlsx_sheets", "sheets %s expected %s" % (wb["order"], want_sheets), what="xlsx_sheets")
    return

  def check_sheet(name, first, step, n, idx, columns):
    """columns: {label: oracle}"""
    rows = wb["sheets"][name]
    ctx.count("xlsx_sheets")
    head = rows[0] if rows else []
    if not head or head[0] != first:
      ctx.violation("xlsx_first_column", "sheet %s first column %r expected %r" % (name, head[:1], first), what="xlsx_first_column")
      return False
    labels = [h for h in head[1:] if h is not None]
    if sorted(labels) != sorted(columns):   # the column ORDER is not fixed by the property; every label once
      ctx.violation("xlsx_labels", "sheet %s labels %s expected (in any order) %s" % (name, labels, sorted(columns)), what="xlsx_labels")
      return False
    if len(rows) - 1 != n:
      ctx.violation("xlsx_rows", "sheet %s has %d rows expected %d" % (name, len(rows) - 1, n), what="xlsx_rows")
      return False
    nzl = False
    for i in range(n):
      ok, diff, tol = R.close(rows[i + 1][0], R.F(step * i), rel=1e-14)
      if not ok:
        ctx.violation("xlsx_grid", "sheet %s row %d: %s = %r expected %r" % (name, i, first, rows[i + 1][0], float(step * i)), what="xlsx_grid")
        return False
    for c, lab in enumerate(labels, start=1):
      o = columns[lab]
      for i in idx:
        v = rows[i + 1][c]
        if not isinstance(v, (int, float)):
          ctx.violation("xlsx_cell", "sheet %s column %s row %d holds %r" % (name, lab, i, v), what="xlsx_cell")
          return False
        oracle.check_value(ctx, "xlsx_cell", repr(float(v)), o, R.F(step * i), where="sheet %s column %s row %d route=%s" % (name, lab, i, route))
        nzl = nzl or v != 0
    return nzl

  nz = False
  if kind == "pair":
    nz = check_sheet("Pair", "r", dr, nr, ridx, refs)
  else:
    order = ref.order
    pairs = {}
    for a, b, n in model["pair"]:
      pairs["%s-%s" % tuple(sorted([a, b]))] = ref.pairlike("pair", a, b)
    r1 = check_sheet("Pair", "r", dr, nr, ridx, pairs)
    emb = {s: ref.embed(s) for s in order}
    r2 = check_sheet("EAM-Embed", "rho", drho, nrho, rhoidx, emb)
    if kind == "fs":
      dens = {"%s->%s" % (a, b): ref.density_fs(a, b) for a in order for b in order}
    else:
      dens = {s: ref.density(s) for s in order}
    r3 = check_sheet("EAM-Density", "r", dr, nr, ridx, dens)
    nz = bool(r1 or r2 or r3)
  ctx.nontrivial(nz)


def run_case(case, ctx):
  if case.get("kind") == "sizes":
    import sizesweep
    ctx.cls("kind:row_count_sweep")
    for n_ in case["sizes"]:
      ctx.cls(sizesweep.size_class(n_))
      if not (sizesweep.check_gulp(ctx, n_)):
        return
    ctx.nontrivial(True)
    return
  ctx.cls("kind:" + case["kind"])
  ctx.cls("route:" + case["route"])
  if case["kind"] == "funcfl":
    case["model"]["api_containers"] = [None, "tuple"][case["style"] % 2]   # writeFuncFL indexes its lists: sequences only
  if (case.get("model") or {}).get("api_results"):
    ctx.cls("api_results:" + case["model"]["api_results"])
  if (case.get("model") or {}).get("api_variant"):
    ctx.cls("api_variant:" + case["model"]["api_variant"])
  if case["model"].get("api_containers"):
    ctx.cls("api_containers:" + case["model"]["api_containers"])
  rng = random.Random(case["style"])
  del routes.NUMPY0D_CACHED[:]
  res = {"gulp": run_gulp, "adp": run_adp, "funcfl": run_funcfl, "excel": run_excel}[case["kind"]](case, ctx, rng)
  routes.numpy0d_mutations(ctx)
  return res
