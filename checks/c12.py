"""C12 - tabulation is deterministic; evaluation is pure (DESIGN.md section 4, C12)."""
import io
import json
import os
import random
import subprocess
import sys
import tempfile
import zipfile

import bootstrap
import canon
import emit
import monitors
import routes
import spec
from harness import exc_sig

PROPERTY_ID = "C12"
LEVEL = "exploration"
RULE = ("(history) pools of 2-4 seeded models (pair / EAM / FS / ADP, all targets; potable models with custom forms that call each other with different "
        "arguments and one form used by several entries; API models) driven by random sequences of 10-60 operations build(m), write(m), "
        "write-again(m), evaluate(m, function, r), build-another-model-in-between, in shuffled and interleaved order; every write must equal the "
        "bytes a FRESH process produces for that model (PYTHONHASHSEED=0, built once, written once) and every evaluation must equal bit for bit "
        "the value a fresh process returns. (hashseed) under-specified EAM/FS models (several zero-filled species) and ordinary ones through the "
        "potable CLI under PYTHONHASHSEED in {0,1,2,3,5,8,13,21} + 4 seeded random values: bytes equal to the hash-seed-0 run. Non-trivial: a "
        "history with >= 2 writes and >= 4 evaluations over >= 2 models, or a hash-seed case of a model with >= 2 elements; distinct = canonical JSON.")
ASSUMPTIONS = ["canonical output = one fresh interpreter per pool (lib/canon.py), hash seed 0", "xlsx containers are compared member by member (zip metadata and docProps/core.xml carry the wall clock)"]
ANCHORS = ["_cexprtk_potential_function.py:_Cexptrk_Potential_Function.__call__", "_potential_form_registry.py:Potential_Form_Registry._register_with_each_other",
           "_eam_potential_builder.py:EAM_Potential_Builder._add_null_embedding_functions", "pair_tabulation.py:Excel_PairTabulation.workbook",
           "_pair_potential_builder.py:Pair_Potentials_From_Tuples_Builder.potentials"]
MIN_NONTRIVIAL = {"quick": 25, "thorough": 300}
MIN_COUNTERS = {"writes_compared": 80, "evaluations_compared": 300, "hashseed_runs": 100, "purity_keys": 300}
TECHNIQUE = "runtime monitoring: byte/bit equality against a fresh-process canon over random build/evaluate/write histories and hash seeds; purity map (function, r) -> bits over the recorded evaluation trace"
LEVEL_TEXT = ("Exploration over histories and a fixed hash-seed set (exhaustive over that set): the real code is driven through random interleavings of "
              "build / evaluate / write operations on several models inside one process; every write is compared with the bytes and every evaluation "
              "with the bits a fresh interpreter produces for the same model; a purity monitor over the recorded Potential.energy trace flags any "
              "(function, r) that ever yields two different values; the CLI is re-run under 12 hash seeds.")
LEVEL_NOTE = "Trusted: the fresh-process canon (same code, no history)."
DESIGN_REF = "DESIGN.md section 4, C12"

HASHSEEDS = [0, 1, 2, 3, 5, 8, 13, 21]
ALLT = {"pair": ["LAMMPS", "DLPOLY", "GULP", "excel"], "eam": ["setfl", "DL_POLY_EAM", "excel_eam"], "fs": ["setfl_fs", "DL_POLY_EAM_fs", "excel_eam_fs"], "adp": ["eam_adp"]}


def sharing_forms_model(rng, target):
  """Pair model whose custom forms call each other with different arguments and are used by several entries."""
  sp = spec.species_list(rng, 3, real=1.0)
  forms = [
    {"name": "core", "params": ["r", "A", "rho"], "expr": ["*", ["var", "A"], ["call", "exp", [["neg", ["/", ["var", "r"], ["var", "rho"]]]]]], "breaks": []},
    {"name": "two", "params": ["r", "A", "B"], "expr": ["+", ["call", "core", [["var", "r"], ["var", "A"], ["num", 0.3]]], ["call", "core", [["var", "r"], ["var", "B"], ["num", 0.7]]]], "breaks": []},
    {"name": "mix", "params": ["rij", "A"], "expr": ["-", ["call", "two", [["var", "rij"], ["var", "A"], ["num", 2.0]]], ["call", "core", [["*", ["num", 2.0], ["var", "rij"]], ["num", 5.0], ["var", "A"]]]], "breaks": []},
  ]
  conv = False
  if rng.random() < 0.6:
    # a formula may assign to its own parameters (unit conversion on the way in): 'rho := rho*0.529177; A*exp(-r/rho)'.
    # Every call starts again from the arguments it was given - also when these are the same as in the call before,
    # which is the case for a form that one entry uses on its own, row after row
    forms[0]["expr"] = ["assign_then", "rho", ["*", ["var", "rho"], ["num", 0.529177]], forms[0]["expr"]]
    forms.append({"name": "conv", "params": ["r", "A", "rho"], "breaks": [],
                  "expr": ["assign_then", "rho", ["*", ["var", "rho"], ["num", 0.529177]], ["*", ["var", "A"], ["call", "exp", [["neg", ["/", ["var", "r"], ["var", "rho"]]]]]]]})
    conv = True
  if rng.random() < 0.75:
    # formulas spelling their parameters in another case than the signature (exprtk symbols are case-insensitive):
    # every occurrence, so that a binding keyed on the spelling has nothing to hold on to
    def swap(e):
      if isinstance(e, list) and e and e[0] == "var":
        return ["var", e[1].swapcase()]
      if isinstance(e, list) and e and e[0] == "assign_then":
        return ["assign_then", e[1].swapcase(), swap(e[2]), swap(e[3])]
      return [swap(x) if isinstance(x, list) else x for x in e] if isinstance(e, list) else e
    for f in forms:
      f["expr"] = swap(f["expr"])
  nr = 8 if target == "DLPOLY" else rng.choice([5, 9])
  pair = []
  k = 0
  for i in range(3):
    for j in range(i, 3):
      k += 1
      name = ["core", "two", "mix", "two", "core", "mix"][k - 1]
      f = [f for f in forms if f["name"] == name][0]
      args = [spec.rfloat(rng, 0.5, 50.0) for _ in f["params"][1:]]
      node = {"k": "custom", "name": name, "args": args}
      if k % 2:
        node = {"k": "sum", "a": [node, {"k": "custom", "name": "core", "args": [spec.rfloat(rng, 1, 9), spec.rfloat(rng, 0.2, 0.9)]}]}
      if conv and k == 4:
        node = {"k": "custom", "name": "conv", "args": [spec.rfloat(rng, 5.0, 50.0), spec.rfloat(rng, 0.5, 2.0)]}
      pair.append([sp[i], sp[j], node])
  return {"type": "pair", "target": target, "tab": {"nr": nr, "cutoff": 5.0}, "forms": forms, "tables": [], "pair": pair}


def gen_model(rng, i, route=None):
  kind = ["pair", "eam", "fs", "adp", "pair", "sharing"][i % 6]
  route = route or rng.choice(["potable", "potable", "api"])
  if kind == "sharing":
    return {"model": sharing_forms_model(rng, rng.choice(ALLT["pair"])), "route": "potable"}
  t = rng.choice(ALLT[kind])
  if kind == "pair":
    nr = 8 if t == "DLPOLY" else rng.choice([4, 6, 9])
    m = spec.gen_pair_model(rng, route, target=t, reg0=True, depth=2, nr_choices=[nr], npots=rng.choice([2, 3, 4]))
  else:
    m = spec.gen_eam_model(rng, kind, route, target=t, depth=1, grids={"nr": rng.choice([4, 6, 9]), "nrho": rng.choice([3, 5])}, nspecies=rng.choice([2, 3]),
                           underspecified=0.5)
    # models of one pool should meet the same elements (with and without [Species] overrides), so that state
    # leaking from one model into the next has something to change: map the labels onto a small alphabet
    small = ["Al", "Cu", "Ni"]
    ren = {s_: small[k % 3] for k, s_ in enumerate(m["all_species"])} if len(m["all_species"]) <= 3 else {}
    if ren:
      # species named only by pair entries (outsiders) keep a label outside the small alphabet
      for ent in m.get("pair") or []:
        for x in ent[:2]:
          if x not in ren:
            ren[x] = "Xo"
    if ren:
      m = json.loads(json.dumps(m))
      m["all_species"] = [ren[x] for x in m["all_species"]]
      for key in ("pair", "embed", "density", "dipole", "quadrupole"):
        for ent in m.get(key) or []:
          for k in range(len(ent) - 1):
            ent[k] = ren.get(ent[k], ent[k])
      m["species"] = {ren.get(k, k): v for k, v in (m.get("species") or {}).items() if rng.random() < 0.6}
  # models of one pool also share the LABELS of their custom forms and table forms (with different
  # formulas / data): anything cached per label inside the process would leak from one model to the next
  mapping = {}
  for k, f in enumerate(m.get("forms") or []):
    mapping[f["name"]] = "form%d" % k
  for k, t in enumerate(m.get("tables") or []):
    mapping[t["name"]] = "tab%d" % k
  if mapping:
    m = spec.rename_symbols(m, mapping)
  return {"model": m, "route": route}


def gen_cases(rng, tier):
  cases = []
  nh = 36 if tier == "quick" else 420
  for i in range(nh):
    pool = [gen_model(rng, i + j) for j in range(rng.choice([2, 3, 4]))]
    if i % 4 == 1:
      # a model with a form that FAILS at r = 0 (it calls as.coul there, under an explicit '>=0' range) and is
      # fine elsewhere: an evaluation that raised must leave nothing behind - later evaluations of the same objects are what
      # a fresh process gives
      q_ = spec.rfloat(rng, 0.5, 3.0, 2)
      sing = {"type": "pair", "target": rng.choice(["LAMMPS", "DLPOLY"]), "tab": {"nr": 8, "cutoff": 4.0}, "tables": [],
              "forms": [{"name": "form0", "params": ["r", "q"], "breaks": [], "expr": ["+", ["call", "as.coul", [["var", "r"], ["var", "q"], ["var", "q"]]], ["*", ["num", 0.5], ["var", "r"]]]},
                        {"name": "form1", "params": ["r", "q"], "breaks": [], "expr": ["*", ["num", 2.0], ["call", "form0", [["var", "r"], ["var", "q"]]]]}],
              "pair": [["Al", "Al", {"k": "ranges", "parts": [[">=", 0.0, {"k": "custom", "name": "form0", "args": [q_]}]]}],
                       ["Al", "Cu", {"k": "ranges", "parts": [[">=", 0.0, {"k": "custom", "name": "form1", "args": [q_ + 1.0]}]]}],
                       ["Cu", "Cu", {"k": "custom", "name": "form0", "args": [q_ + 2.0]}]]}
      pool.append({"model": sing, "route": "potable"})
    if i % 4 == 3:
      # ranges with EXCLUSIVE interior starts ('>1.5'): the boundary point belongs to the range below, also right after an
      # evaluation above it
      c1, c2 = spec.rfloat(rng, 1.0, 9.0, 2), spec.rfloat(rng, 1.0, 9.0, 2)
      excl = {"type": "pair", "target": rng.choice(["LAMMPS", "GULP"]), "tab": {"nr": 9, "cutoff": 4.0}, "tables": [], "forms": [],
              "pair": [["Al", "Al", {"k": "ranges", "parts": [[">=", 0.0, {"k": "form", "name": "constant", "p": [c1]}], [">", 1.5, {"k": "form", "name": "polynomial", "p": [c2, 0.5]}]]}],
                       ["Cu", "Cu", {"k": "ranges", "parts": [[">", 0.0, {"k": "form", "name": "polynomial", "p": [c1, -0.25]}], [">", 2.0, {"k": "form", "name": "constant", "p": [c2]}], [">=", 3.0, {"k": "form", "name": "zero", "p": []}]]}]]}
      pool.append({"model": excl, "route": rng.choice(["potable", "api"])})
    nops = rng.randint(10, 60) + (40 if i % 4 in (1, 3) else 0)
    cases.append({"kind": "history", "pool": pool, "nops": nops, "seed": rng.randrange(1 << 30)})
  # API usage variant: ONE parsed ConfigParser object reused for several outputs (read_from_parser twice, filtered
  # views of it created and tabulated in between): every output equals what a fresh process gives for that model
  npr = 14 if tier == "quick" else 160
  for i in range(npr):
    m = gen_model(rng, [0, 1, 2, 3][i % 4], "potable")["model"]
    sp = []
    for key in ("pair", "embed", "density"):
      for ent in m.get(key) or []:
        for x in ent[:-1]:
          if x not in sp:
            sp.append(x)
    views = [None]
    for _ in range(rng.randint(1, 3)):
      views.append({"S": rng.sample(sp, rng.randint(1, len(sp))), "exclude": rng.random() < 0.5})
    ops = [rng.randrange(len(views)) for _ in range(rng.randint(4, 9))]
    cases.append({"kind": "parser_reuse", "model": m, "views": views, "ops": ops})
  ns = 12 if tier == "quick" else 120
  for i in range(ns):
    if i % 2 == 0:
      kind = rng.choice(["eam", "fs"])
      t = rng.choice(ALLT[kind])
      # under-specified: several species named only by density entries -> zero-filled element order matters
      m = spec.gen_eam_model(rng, kind, "potable", target=t, depth=1, grids={"nr": 4, "nrho": 3}, nspecies=4, underspecified=0)
      m["embed"] = m["embed"][:1]
      if i % 4 == 2:
        # the zero-filled species carry labels that differ only in case ('Al', 'AL', 'aL'): any ordering that folds
        # case leaves their relative order to the (hash-seed dependent) iteration order of a set
        keep = m["embed"][0][0]
        others = [x for x in m["all_species"] if x != keep]
        mapping = dict([(keep, "Cu")] + list(zip(others, ["Al", "AL", "aL", "al"])))
        extra = []
        for key_ in ("pair", "dipole", "quadrupole"):
          for ent_ in m.get(key_) or []:
            for x_ in ent_[:2]:
              if x_ not in mapping and x_ not in extra:
                extra.append(x_)
        mapping.update(dict(zip(extra, ["Ni", "Fe", "Ag", "Au", "Pt", "Pd", "Zn", "Mg"])))      # labels named in pairs only
        m = spec.rename_species(m, mapping)
        for j_, k_ in enumerate(m["all_species"]):
          d_ = m.setdefault("species", {}).setdefault(k_, {})
          d_.setdefault("atomic_number", 13 + j_)
          d_.setdefault("atomic_mass", 26.98 + j_)
    else:
      m = gen_model(rng, i, "potable")["model"]
    seeds = HASHSEEDS + [rng.randrange(1, 4000000000) for _ in range(4)]
    cases.append({"kind": "hashseed", "model": m, "hashseeds": seeds})
  return cases


def run_canon(job):
  tmp = tempfile.mkdtemp(prefix="canon-", dir=os.environ.get("VERIF_TMP"))
  path = os.path.join(tmp, "job.json")
  json.dump(job, open(path, "w"))
  r = subprocess.run([sys.executable, os.path.join(bootstrap.VERIF_ROOT, "lib", "canon.py"), path], env=bootstrap.child_env(hashseed="0"),
                     capture_output=True, text=True, timeout=300)
  if r.returncode != 0:
    raise RuntimeError("canon process failed: %s" % r.stderr[-500:])
  return json.loads(r.stdout)


def xlsx_diff(a, b):
  """-> None if equal in content; 'timestamp' if only docProps/core.xml (clock) differs; else description."""
  za, zb = zipfile.ZipFile(io.BytesIO(a)), zipfile.ZipFile(io.BytesIO(b))
  if za.namelist() != zb.namelist():
    return "member lists differ: %s vs %s" % (za.namelist(), zb.namelist())
  only_clock = False
  for n in za.namelist():
    x, y = za.read(n), zb.read(n)
    if x != y:
      if n == "docProps/core.xml":
        only_clock = True
      else:
        return "member %s differs" % n
  return "timestamp" if (only_clock or a != b) else None


def compare_bytes(ctx, target, got, want, what, detail):
  if got == want:
    return True
  if got[:2] == b"PK" and want[:2] == b"PK":
    d = xlsx_diff(got, want)
    if d == "timestamp":
      ctx.violation(what, "xlsx container differs only in embedded clock values (docProps/core.xml, zip member times): %s" % detail, what=what, mech="xlsx_container_embeds_wall_clock")
      return True
    ctx.violation(what, "%s: %s" % (detail, d), what=what, mech="content")
    return False
  n = next((i for i, (x, y) in enumerate(zip(got, want)) if x != y), min(len(got), len(want)))
  ctx.violation(what, "%s: output differs from the fresh-process canon at byte %d (%d vs %d bytes): ...%r... vs ...%r..." % (
    detail, n, len(got), len(want), got[max(0, n - 30):n + 30], want[max(0, n - 30):n + 30]), what=what, mech="content")
  return False


def run_history(case, ctx):
  rng = random.Random(case["seed"])
  pool = case["pool"]
  # choose evaluation points first so the canon can compute them
  evals = []
  bp_pairs = []
  try:
    tags = []
    for e in pool:
      tags.append(sorted(canon.functions(canon.build(e))))
  except Exception as e:
    ctx.count("model_out_of_domain")
    return
  import refmodel as R
  for mi, tg in enumerate(tags):
    for _ in range(6):
      if tg:
        evals.append([mi, rng.choice(tg), round(rng.uniform(0.2, 4.0), rng.choice([1, 2, 6]))])
    # points ON and next to the breakpoints of the model's definitions (range starts, spline
    # detach/attach, table ends): where a remembered piecewise selection would show
    mdl = pool[mi]["model"]
    RM = R.Model(mdl.get("forms"), mdl.get("tables"))
    nodes = [ent[-1] for key in ("pair", "embed", "density", "dipole", "quadrupole") for ent in (mdl.get(key) or [])]
    brk = sorted(set(b for nd in nodes for b in RM.breakpoints(nd) if 0.0 <= b <= 20.0))
    for b in rng.sample(brk, min(3, len(brk))):
      for tag in rng.sample(tg, min(2, len(tg))) if tg else []:
        above = b + rng.choice([0.3, 0.05])
        evals.append([mi, tag, above])
        evals.append([mi, tag, b])
        evals.append([mi, tag, max(0.0, b - 0.05)])
        bp_pairs.append((mi, tag, above, b))
  try:
    # one fresh interpreter PER MODEL: the canon itself must be free of any history
    can = {"bytes": [], "evals": [None] * len(evals)}
    for mi, entry in enumerate(pool):
      idx = [k for k, e in enumerate(evals) if e[0] == mi]
      one = run_canon({"models": [entry], "evals": [[0, evals[k][1], evals[k][2]] for k in idx]})
      can["bytes"].append(one["bytes"][0])
      for k, v in zip(idx, one["evals"]):
        can["evals"][k] = v
  except Exception as e:
    ctx.violation("HARNESS_ERROR", str(e), what="canon")
    return
  if any(b.startswith("ERR") for b in can["bytes"]):
    ctx.count("model_out_of_domain")
    return
  want_bytes = [bytes.fromhex(b) for b in can["bytes"]]
  want_eval = {(mi, tag, r): v for (mi, tag, r), v in zip(evals, can["evals"])}
  built = {}
  writes = nev = 0
  purity = {}
  log = monitors.EventLog()

  def purity_check():
    # class-level trace of Potential.energy: (object, r) -> bits must be a function
    return

  from atsim.potentials._potential import Potential
  orig_energy = Potential.energy
  pur_fail = []

  def traced_energy(pot, r):
    v = orig_energy(pot, r)
    key = (id(pot), float(r).hex())
    bits = canon.hexval(v)
    old = purity.setdefault(key, (bits, pot))[0]   # the reference keeps id(pot) from being reused by a later object
    if old != bits:
      pur_fail.append("Potential %s-%s energy(%r) returned %s after having returned %s" % (pot.speciesA, pot.speciesB, r, bits, old))
    return v
  Potential.energy = traced_energy
  keep_alive = []
  try:
    ops = []
    for _ in range(case["nops"]):
      c = rng.random()
      mi = rng.randrange(len(pool))
      if c < 0.2 or mi not in built:
        ops.append(("build", mi))
        built.setdefault(mi, None)
      elif c < 0.45:
        ops.append(("write", mi))
      elif c < 0.9:
        cand = [e for e in evals if e[0] == mi]
        if cand:
          ops.append(("eval",) + tuple(rng.choice(cand)))
      else:
        ops.append(("other",))
    # deterministically: the point just above a breakpoint and then the breakpoint itself, back to back on one object
    # (whatever the object remembers from the evaluation above the boundary must not answer for the boundary)
    for mi_, tag_, above_, b_ in bp_pairs[:8]:
      if mi_ in built:
        ops += [("eval", mi_, tag_, above_), ("eval", mi_, tag_, b_), ("eval", mi_, tag_, above_)]
    built = {}
    for op in ops:
      ctx.cls("op:" + op[0])
      if op[0] == "build":
        tab = canon.build(pool[op[1]])
        built[op[1]] = tab
        keep_alive.append(tab)
      elif op[0] == "other":
        keep_alive.append(canon.build(gen_model(rng, rng.randrange(6))))
      elif op[0] == "write":
        tab = built[op[1]]
        out = routes.write_tab(tab)
        out = out if isinstance(out, bytes) else out.encode()
        writes += 1
        ctx.count("writes_compared")
        if not compare_bytes(ctx, tab.target, out, want_bytes[op[1]], "write_differs", "model %d (%s, %s) after %d operations" % (op[1], tab.target, pool[op[1]]["route"], len(keep_alive))):
          return
      else:
        _, mi, tag, r = op
        try:
          v = canon.hexval(canon.functions(built[mi])[tag](r))
        except Exception as e:   # outside the function's domain: must then fail the same way in a fresh process
          v = "ERR:%s" % type(e).__name__
        nev += 1
        ctx.count("evaluations_compared")
        w_ = want_eval[(mi, tag, r)]
        # a failed evaluation is compared as "failed": WHICH exception surfaces when two sub-calls of one formula both fail
        # depends on exprtk's evaluation order of commutative operands, which differs between processes
        if (v != w_) and not (str(v).startswith("ERR") and str(w_).startswith("ERR")):
          ctx.violation("evaluation_differs", "model %d %s(%r) = %s in this history, fresh process gives %s" % (mi, tag, r, v, want_eval[(mi, tag, r)]), what="evaluation_differs")
          return
  except Exception as e:
    et, fn = exc_sig(e)
    ctx.violation("exception", "history failed: %s %s" % (et, e), what="exception", exc=et, func=fn)
    return
  finally:
    Potential.energy = orig_energy
  ctx.count("purity_keys", len(purity))
  for msg in pur_fail[:2]:
    ctx.violation("impure", msg, what="impure")
  ctx.nontrivial(writes >= 2 and nev >= 4 and len(pool) >= 2)


def run_hashseed(case, ctx):
  m = case["model"]
  text = emit.model_text(m)
  ctx.cls("target:" + m["target"])
  outs = {}
  for hs in case["hashseeds"]:
    res = routes.run_potable(["@IN", "@OUT"], text, hashseed=str(hs), stale_out=(hs == case["hashseeds"][-1]))  # one of the runs onto a path that held a longer table (C12r10)
    ctx.count("hashseed_runs")
    if res["rc"] != 0 or not res["exists"]:
      if "OverflowError" in res["err"]:
        ctx.count("model_out_of_domain")
        return
      ctx.violation("cli_failed", "PYTHONHASHSEED=%s: rc=%s %s" % (hs, res["rc"], res["err"][-300:]), what="cli_failed")
      return
    outs[hs] = res["data"]
  base = outs[case["hashseeds"][0]]
  for hs, data in outs.items():
    if not compare_bytes(ctx, m["target"], data, base, "hashseed_differs", "PYTHONHASHSEED=%s vs %s (target %s)" % (hs, case["hashseeds"][0], m["target"])):
      return
  order = spec.eam_element_order(m) if m["type"] != "pair" else []
  ctx.nontrivial(m["type"] == "pair" or len(order) >= 2)
  if m["type"] != "pair" and len(order) - len(m["embed"]) >= 2:
    ctx.cls("several_zero_filled_species")


def run_parser_reuse(case, ctx):
  from checks import c13
  from atsim.potentials.config import ConfigParser, FilteredConfigParser, Configuration
  m = case["model"]
  ctx.cls("target:" + m["target"])
  edited = [m if v is None else c13.edit_model(m, v["S"], v["exclude"])[0] for v in case["views"]]
  try:
    can = [run_canon({"models": [{"model": e, "route": "potable"}], "evals": []})["bytes"][0] for e in edited]
  except Exception as e:
    ctx.violation("HARNESS_ERROR", str(e), what="canon")
    return
  cp = ConfigParser(io.StringIO(emit.model_text(m)))
  objs = {}
  n = 0
  for k, vi in enumerate(case["ops"]):
    v = case["views"][vi]
    if vi not in objs:
      objs[vi] = cp if v is None else (FilteredConfigParser(cp, exclude=v["S"]) if v["exclude"] else FilteredConfigParser(cp, include=v["S"]))
    try:
      out = routes.write_tab(Configuration().read_from_parser(objs[vi]))
      out = (out if isinstance(out, bytes) else out.encode())
      got = None
    except Exception as e:
      got = "ERR:%s" % type(e).__name__
    if can[vi].startswith("ERR"):
      ctx.count("model_out_of_domain")
      if got is None or not can[vi].startswith(got):
        ctx.violation("reuse_differs", "op %d: fresh process fails (%s) but the reused parser gives %s" % (k, can[vi][:80], got or "output"), what="reuse_differs")
        return
      continue
    if got is not None:
      ctx.violation("reuse_differs", "op %d (view %s): %s from the reused parser; a fresh process tabulates the hand-deleted file" % (k, v, got), what="reuse_differs")
      return
    ctx.count("writes_compared")
    n += 1
    if not compare_bytes(ctx, m["target"], out, bytes.fromhex(can[vi]), "reuse_differs", "op %d of %s: view %s of one parsed file (views %s)" % (k, case["ops"], v, case["views"])):
      return
  ctx.nontrivial(n >= 3 and len(set(case["ops"])) >= 2)


def run_case(case, ctx):
  ctx.cls("kind:" + case["kind"])
  if case["kind"] == "parser_reuse":
    return run_parser_reuse(case, ctx)
  return run_history(case, ctx) if case["kind"] == "history" else run_hashseed(case, ctx)
