"""C09 - potable model language: modifiers and custom formulas mean what is documented (DESIGN.md section 4, C09)."""
import random

import mpmath as mp

import emit
import oracle
import refmodel as R
import routes
import spec
from harness import exc_sig

PROPERTY_ID = "C09"
LEVEL = "exploration"
RULE = ("seeded definitions generated from the documented grammar: built-in forms, ranges, sum()/product() with 2-4 arguments, pow(a, b) with a positive "
        "base, trans(f, as.constant X), spline(), nested to depth 3; custom formulas over + - * / ^ (fully parenthesised), calls to other custom "
        "forms with different arguments, as.* functions, pymath.* functions, if(), table forms; placed in every section that accepts a definition "
        "([Pair], [EAM-Embed], [EAM-Density] standard and A->B, [EAM-ADP-Dipole], [EAM-ADP-Quadrupole]); each model is emitted in 3 formatting "
        "variants (whitespace, '=' / ':', continuation lines, comment lines, entry and section order) and, where every piece has an API counterpart, "
        "composed through the Python API. Non-trivial: a definition tree with >= 2 nodes or a custom formula, evaluated at a point where the "
        "reference is non-zero; distinct = canonical JSON of (model, style seeds).")
ASSUMPTIONS = ["reference = independent mpmath evaluation of the same spec; exprtk operator precedence is not in question because formulas are emitted fully parenthesised",
               "pow() with three arguments is not generated (the manual's own example contradicts left-to-right reduction)",
               "a definition without a range marker acts for r > 0 only (C08), which the reference applies at every definition position"]
ANCHORS = ["_modifiers.py:_modifier_from_func_reduce", "_modifiers.py:trans", "_modifiers.py:pow", "_config_parser.py:ConfigParser._descend_tree",
           "_cexprtk_potential_function.py:_Cexptrk_Potential_Function.__call__", "_potential_form_registry.py:Potential_Form_Registry._register_pymath_functions",
           "_config_parser.py:_ConfigParserDict._key_transform", "_potential_form_builder.py:Potential_Form_Builder.create_potential_function"]
MIN_NONTRIVIAL = {"quick": 60, "thorough": 800}
MIN_COUNTERS = {"values_compared": 3000, "format_variants_compared": 120, "api_equivalence_points": 300}
TECHNIQUE = "runtime monitoring: mpmath reference evaluation of generated definitions + format-invariance (bit/byte) and Python-API-equivalence differentials"
LEVEL_TEXT = ("Exploration: definitions drawn from the documented grammar are placed in every section that accepts one; the energy of every function "
              "the real parser builds is compared at sampled r with an independent 40-digit evaluation of the same spec; re-emitting the model with "
              "other whitespace, '='/':', continuation lines, comments and entry/section order must give bit-identical energies and byte-identical "
              "tables; composing the same pieces through plus/product/pow, potentialforms.*, the spline classes and multi-range objects must agree to 1e-13.")
LEVEL_NOTE = "Trusted: mpmath, my reading of the documented grammar in emit.py."
DESIGN_REF = "DESIGN.md section 4, C09"

KINDS = ["pair", "eam", "fs", "adp"]


NEAR_EQUAL_PARAMS = [({"k": "form", "name": "buck", "p": [1284.381, 0.3013, 12.5]}, {"k": "form", "name": "buck", "p": [1284.384, 0.3013, 12.5]}),
            ({"k": "form", "name": "polynomial", "p": [0.0, 2500000]}, {"k": "form", "name": "polynomial", "p": [0.0, 2500001]}),
            ({"k": "form", "name": "bornmayer", "p": [915.7231, 0.2999995]}, {"k": "form", "name": "bornmayer", "p": [915.7234, 0.2999996]}),
            ({"k": "form", "name": "morse", "p": [1.2000001, 2.0, 0.35]}, {"k": "form", "name": "morse", "p": [1.2000004, 2.0, 0.35]})]


def gen_cases(rng, tier):
  n = 90 if tier == "quick" else 1200
  cases = []
  for i in range(n):
    kind = KINDS[i % 4]
    if kind == "pair":
      m = spec.gen_pair_model(rng, "potable", target=rng.choice(["LAMMPS", "GULP"]), reg0=True, depth=rng.choice([2, 3]), nr_choices=[rng.choice([4, 6, 9])], npots=rng.choice([2, 3, 4]))
    else:
      t = {"eam": "setfl", "fs": "setfl_fs", "adp": "eam_adp"}[kind]
      m = spec.gen_eam_model(rng, kind, "potable", target=t, depth=rng.choice([1, 2]), grids={"nr": rng.choice([4, 6]), "nrho": rng.choice([3, 5])},
                             nspecies=rng.choice([1, 2, 3]), underspecified=0)
    if i % 4 == 1:
      # definitions that become the same string once the blanks BETWEEN tokens are removed ('1 25' vs '12 5'):
      # token boundaries carry meaning even though surrounding whitespace does not
      a, b, c = rng.randint(1, 9), rng.randint(1, 9), rng.randint(1, 9)
      name = rng.choice(["polynomial", "polynomial", "buck_like"])
      if name == "polynomial":
        n1 = {"k": "form", "name": "polynomial", "p": [a, 10 * b + c]}
        n2 = {"k": "form", "name": "polynomial", "p": [10 * a + b, c]}
      else:
        n1 = {"k": "form", "name": "morse", "p": [a, 10 * b + c, 2]}
        n2 = {"k": "form", "name": "morse", "p": [10 * a + b, c, 2]}
      for key in ("density", "pair", "embed"):
        ents = m.get(key) or []
        if len(ents) >= 2:
          ents[0][-1], ents[1][-1] = n1, n2
    if i % 3 == 2:
      # nested modifiers whose ranges share a start at two levels, with the same or the other marker
      for key in ("pair", "density", "embed"):
        ents = m.get(key) or []
        if ents:
          ents[-1][-1] = spec.gen_nested_same_start(rng, leading=(i % 6 == 2))[0]
    if i % 7 == 2:
      # two entries that use one form with parameter lists differing only by -1 versus -2 (hash(-1) == hash(-2) in CPython):
      # each entry means its own parameters
      wrap_ = lambda c_: {"k": "sum", "a": [{"k": "form", "name": "polynomial", "p": [0.5, 0.25]}, {"k": "form", "name": "constant", "p": [c_]}]}
      for key in ("pair", "density", "embed"):
        ents = m.get(key) or []
        if len(ents) >= 2:
          a_, b_ = rng.choice([(-1, -2), (-1.0, -2.0), (-2, -1)])
          ents[0][-1], ents[1][-1] = wrap_(a_), wrap_(b_)
    if i % 9 == 4:
      # trans() of a definition as an end potential of spline(): its shifted .deriv / .deriv2 feed the spline coefficients
      for key in ("pair", "density", "embed"):
        ents = m.get(key) or []
        if ents:
          spl = spec.gen_spline(rng, "potable")
          side = rng.choice(["start", "end"])
          if spl[side].get("k") != "trans":
            spl[side] = {"k": "trans", "f": spl[side], "x": spec.rfloat(rng, 0.1, 1.0)}
          ents[0][-1] = spl
          break
    if i % 11 == 6:
      # labels and leading whole-number parameters that read alike when glued together: 'rep 12 0.5' and 'rep_12 0.5'
      n_ = rng.choice([12, 3, 7])
      m["forms"] = list(m.get("forms") or []) + [
        {"name": "rep", "params": ["r", "n", "k"], "breaks": [], "expr": ["+", ["*", ["var", "n"], ["var", "k"]], ["*", ["num", 0.25], ["var", "r"]]]},
        {"name": "rep_%d" % n_, "params": ["r", "k"], "breaks": [], "expr": ["-", ["*", ["var", "k"], ["var", "r"]], ["num", 100.0]]}]
      kk = spec.rfloat(rng, 0.2, 2.0, 2)
      a_, b_ = {"k": "custom", "name": "rep", "args": [n_, kk]}, {"k": "custom", "name": "rep_%d" % n_, "args": [kk]}
      if rng.random() < 0.5:
        a_, b_ = b_, a_
      for key in ("pair", "density", "embed"):
        ents = m.get(key) or []
        if len(ents) >= 2:
          ents[0][-1], ents[1][-1] = a_, b_
          break
    if i % 7 == 5:
      # ONE custom form used twice in a row with parameter lists that differ only by -1 versus -2 (equal hash() in
      # CPython): as two arguments of one modifier, and called twice inside another formula - each use means its own
      # parameters (anything remembered from the previous call and looked up by hash would not)
      a_, b_ = rng.choice([(-1, -2), (-1.0, -2.0), (-2, -1), (-2.0, -1.0)])
      x_ = spec.rfloat(rng, 0.5, 3.0, 2)
      m["forms"] = list(m.get("forms") or []) + [
        {"name": "hc", "params": ["r", "x", "k"], "breaks": [], "expr": ["+", ["*", ["var", "x"], ["var", "r"]], ["*", ["num", 10.0], ["var", "k"]]]},
        {"name": "hc2", "params": ["r", "x"], "breaks": [], "expr": ["-", ["*", ["num", 3.0], ["call", "hc", [["var", "r"], ["var", "x"], ["num", float(a_)]]]],
                                                                  ["call", "hc", [["var", "r"], ["var", "x"], ["num", float(b_)]]]]}]
      u1 = {"k": rng.choice(["sum", "product"]), "a": [{"k": "custom", "name": "hc", "args": [x_, a_]}, {"k": "custom", "name": "hc", "args": [x_, b_]}]}
      u2 = {"k": "custom", "name": "hc2", "args": [x_]}
      if i % 14 == 5:
        # the same with a BUILT-IN form (one shared object per form name serves every 'as.NAME ...' instance and every
        # as.NAME(r, ...) call inside formulas)
        u1 = {"k": u1["k"], "a": [{"k": "form", "name": "polynomial", "p": [x_, a_]}, {"k": "form", "name": "polynomial", "p": [x_, b_]}]}
        m["forms"][-1] = {"name": "hc2", "params": ["r", "x"], "breaks": [], "expr": ["-", ["*", ["num", 3.0], ["call", "as.polynomial", [["var", "r"], ["var", "x"], ["num", float(a_)]]]],
                                                                                       ["call", "as.polynomial", [["var", "r"], ["var", "x"], ["num", float(b_)]]]]}
      for key in ("pair", "density", "embed"):
        ents = m.get(key) or []
        if len(ents) >= 2:
          ents[0][-1], ents[1][-1] = u1, u2
        elif ents:
          ents[0][-1] = u1
    if i % 7 == 4:
      # two entries that use ONE built-in form with parameter lists that agree to six significant figures ('%g' prints them
      # alike): each entry means its own parameters
      pa_, pb_ = rng.choice(NEAR_EQUAL_PARAMS)
      if rng.random() < 0.5:
        pa_, pb_ = pb_, pa_
      for key in ("pair", "density", "embed"):
        ents = m.get(key) or []
        if len(ents) >= 2:
          ents[0][-1], ents[1][-1] = dict(pa_), dict(pb_)
    if i % 7 == 1:
      # a formula that rescales one of its own parameters before using it ('rho := rho*0.529177; A*exp(-r/rho)': exprtk
      # allows the assignment): every evaluation starts from the parameter as given in the file, whatever an earlier
      # evaluation did to its copy
      m["forms"] = list(m.get("forms") or []) + [
        {"name": "selfscale", "params": ["r", "A", "rho"], "breaks": [],
         "expr": ["assign_then", "rho", ["*", ["var", "rho"], ["num", 0.529177]], ["*", ["var", "A"], ["call", "exp", [["neg", ["/", ["var", "r"], ["var", "rho"]]]]]]]}]
      u_ = {"k": "custom", "name": "selfscale", "args": [spec.rfloat(rng, 5.0, 500.0, 2), spec.rfloat(rng, 0.5, 1.5, 3)]}
      for key in ("pair", "density", "embed"):
        ents = m.get(key) or []
        if ents:
          ents[-1][-1] = u_
    shared = 0
    if i % 5 == 3:
      shared = spec.share_leading_range(rng, m)
    cases.append({"model": m, "styles": [rng.randrange(1 << 30) for _ in range(3)], "rseed": rng.randrange(1 << 30), "shared_leading_range": shared})
  for k in range(4 if tier == "quick" else 24):
    cases.append({"kind": "signed_zero", "r0": rng.choice([1.0, 2.0, 1.5, 2.5]), "a": spec.rfloat(rng, 1.0, 9.0, 2), "b": spec.rfloat(rng, 1.0, 9.0, 2)})
  return cases


def entries(model):
  """[(tag, node, is_rho)] for every definition of the model, matching canon-style tags."""
  out = []
  for i, (a, b, n) in enumerate(model.get("pair") or []):
    out.append(("pair:%d" % i, n, False))
  for a, n in model.get("embed") or []:
    out.append(("embed:%s" % a, n, True))
  for ent in model.get("density") or []:
    if len(ent) == 2:
      out.append(("dens:%s" % ent[0], ent[1], False))
    else:
      out.append(("dens:%s:%s" % (ent[0], ent[1]), ent[2], False))
  for key, attr in (("dipole", "dipole_potentials"), ("quadrupole", "quadrupole_potentials")):
    for i, (a, b, n) in enumerate(model.get(key) or []):
      out.append(("%s:%d" % (attr, i), n, False))
  return out


def functions(tab):
  out = {}
  for i, p in enumerate(tab.potentials):
    out["pair:%d" % i] = p.energy
  for ep in getattr(tab, "eam_potentials", []):
    out["embed:%s" % ep.species] = ep.embeddingFunction
    d = ep.electronDensityFunction
    if isinstance(d, dict):
      for k, f in d.items():
        out["dens:%s:%s" % (ep.species, k)] = f
    else:
      out["dens:%s" % ep.species] = d
  for attr in ("dipole_potentials", "quadrupole_potentials"):
    for i, p in enumerate(getattr(tab, attr, []) or []):
      out["%s:%d" % (attr, i)] = p.energy
  return out


def api_composable(node):
  k = node["k"]
  if k in ("custom", "trans", "py"):
    return False
  if k in ("sum", "product", "pow"):
    return all(api_composable(a) for a in node["a"])
  if k == "ranges":
    return all(api_composable(s) for _, _, s in node["parts"])
  if k == "spline":
    return api_composable(node["start"]) and api_composable(node["end"])
  return True


def count_nodes(node):
  k = node["k"]
  if k in ("sum", "product", "pow"):
    return 1 + sum(count_nodes(a) for a in node["a"])
  if k == "trans":
    return 1 + count_nodes(node["f"])
  if k == "ranges":
    return sum(count_nodes(s) for _, _, s in node["parts"]) + (1 if len(node["parts"]) > 1 else 0)
  if k == "spline":
    return 1 + count_nodes(node["start"]) + count_nodes(node["end"])
  return 1


def run_signed_zero(case, ctx):
  """Hand-written formulas whose value depends on the SIGN of a zero argument (pymath.copysign, pymath.atan2): two
  consecutive calls of one custom form whose arguments differ only in that sign are two different calls.  The expected
  values are computed with Python floats (the 40-digit reference has no signed zero)."""
  import math
  ctx.cls("formula_sensitive_to_the_sign_of_zero")
  r0, a, b = case["r0"], case["a"], case["b"]
  text = ("[Tabulation]\ntarget : LAMMPS\nnr : 5\ncutoff : 4.0\n\n[Potential-Form]\n"
          "sgnz(r, x) = pymath.copysign(1.0, x)\n"
          "angz(r, x) = pymath.atan2(x, -1.0)\n"
          "zstep(r, r0, a, b) = a*sgnz(r, r - r0) + b*sgnz(r, -1.0*(r - r0))\n"
          "zang(r, r0, a, b) = a*angz(r, r - r0) + b*angz(r, -1.0*(r - r0))\n\n"
          "[Pair]\nA-A : >=0 zstep %r %r %r\nA-B : >=0 zang %r %r %r\nB-B : sum(>=0 sgnz %r, >=0 sgnz %r)\n" % (r0, a, b, r0, a, b, 0.0, -0.0))
  try:
    tab = routes.read_config(text)
    pots = {(p.speciesA, p.speciesB): p.potentialFunction for p in tab.potentials}
  except Exception as e:
    et, fn = exc_sig(e)
    ctx.violation("exception", "well-formed model refused: %s %s" % (et, e), what="exception", exc=et, func=fn, variant="signed_zero")
    return
  want = {("A", "A"): lambda r: a * math.copysign(1.0, r - r0) + b * math.copysign(1.0, -1.0 * (r - r0)),
          ("A", "B"): lambda r: a * math.atan2(r - r0, -1.0) + b * math.atan2(-1.0 * (r - r0), -1.0),
          ("B", "B"): lambda r: 0.0 if r <= 0 else math.copysign(1.0, 0.0) + math.copysign(1.0, -0.0)}
  pts = [r0, r0 + 0.5, r0, max(0.25, r0 - 0.5), r0, 3.0, r0]
  for key, f in pots.items():
    for r in pts:
      try:
        v = f(r)
      except Exception as e:
        et, fn = exc_sig(e)
        ctx.violation("exception", "%s-%s raised at r=%r: %s %s" % (key[0], key[1], r, et, e), what="exception", exc=et, func=fn, variant="signed_zero")
        return
      w = want[key](r)
      ctx.count("values_compared")
      if not (abs(v - w) <= 1e-12 * max(1.0, abs(w))):
        ctx.violation("meaning", "%s-%s at r=%r: potable gives %r, the formula evaluated in double arithmetic gives %r (two calls of one form whose arguments are +0.0 and -0.0)" % (key[0], key[1], r, v, w), what="meaning")
        return
  ctx.nontrivial(True)


def run_case(case, ctx):
  if case.get("kind") == "signed_zero":
    return run_signed_zero(case, ctx)
  m = case["model"]
  rng = random.Random(case["rseed"])
  M = R.Model(m["forms"], m["tables"])
  ctx.cls("model:" + m["type"])
  if case.get("shared_leading_range"):
    ctx.cls("entries_sharing_their_leading_range")
  texts = [emit.model_text(m)] + [emit.model_text(m, emit.Style(random.Random(s))) for s in case["styles"]]
  tabs, outs = [], []
  try:
    for t in texts:
      tab = routes.read_config(t)
      tabs.append(tab)
  except Exception as e:
    et, fn = exc_sig(e)
    ctx.violation("exception", "well-formed model refused (%d-th formatting variant): %s %s" % (len(tabs), et, e), what="exception", exc=et, func=fn, variant=str(len(tabs)))
    return
  fns = [functions(t) for t in tabs]
  ents = entries(m)
  cutoff = float(m["tab"]["cutoff"])
  crho = float(m["tab"].get("cutoff_rho", cutoff))
  nz = False
  big = False
  for tag, node, is_rho in ents:
    if tag not in fns[0]:
      ctx.violation("missing_function", "definition %s is not present in the tabulation object" % tag, what="missing_function")
      return
    ctx.cls("section:" + tag.split(":")[0])
    for kk in spec.node_kinds(node):
      ctx.cls("node:" + kk)
    ref_node = spec.wrap_potable(node)
    o = oracle.ValueOracle(M, ref_node)
    top = crho if is_rho else cutoff
    pts = [0.0, round(rng.uniform(0.05, top), 3), round(rng.uniform(0.05, top), 2), round(rng.uniform(0.05, top), 5), top, round(top * 1.7, 3), -0.5]
    # exactly ON every breakpoint of the definition (range starts at any nesting level, spline detach/attach/r_min,
    # table ends) and on its floating-point neighbours: where '>' and '>=' differ.  r is passed to the callable as
    # the very double the reference uses, so no rounding is involved.
    import math
    exact = set(M.exact_breakpoints(ref_node))
    bps = sorted(set(b for b in exact if -1.0 <= b <= 2 * top))
    for b in (bps if len(bps) <= 8 else rng.sample(bps, 8)):
      pts += [b, math.nextafter(b, math.inf), math.nextafter(b, -math.inf)]
    apif = None
    if api_composable(node):
      try:
        apif = emit.api_callable(ref_node, m["tables"])
      except Exception:
        apif = None
    for r in pts:
      rr = R.F(r)
      try:
        ref = o.value(rr)
        if abs(ref) > mp.mpf("1e150") or o.m.max_submag(o.node, rr) > mp.mpf("1e250"):
          continue
      except (R.RefDomainError, ZeroDivisionError, ValueError, OverflowError):
        continue
      if oracle.on_break(rr, o.breaks) and r != 0 and not any(abs(r - b) <= 4e-16 * max(1.0, abs(b)) for b in exact):
        continue   # a breakpoint reached through trans() (r+X is rounded) or inside a formula (exprtk's own literals)
      try:
        vals = [f[tag](r) for f in fns]
      except OverflowError:
        continue
      except ZeroDivisionError as e:
        if 0 < abs(r) < 1e-50:
          ctx.count("out_of_domain_points")   # a subnormal neighbour of a breakpoint at 0: r**6 underflows to 0 in C/r**6
          continue
        et, fn = exc_sig(e)
        ctx.violation("exception", "%s raised at r=%r: %s %s" % (tag, r, et, e), what="exception", exc=et, func=fn, variant="eval")
        return
      except Exception as e:
        et, fn = exc_sig(e)
        ctx.violation("exception", "%s raised at r=%r: %s %s" % (tag, r, et, e), what="exception", exc=et, func=fn, variant="eval")
        return
      if o.mag(rr) == mp.mpf("inf"):
        ctx.count("out_of_domain_points")   # no magnitude bound (ill-conditioned exponential spline): format invariance still judged
        if any(v != vals[0] and not (v != v and vals[0] != vals[0]) for v in vals[1:]):
          ctx.violation("format_dependence", "%s at r=%r differs between formatting variants of one file: %r" % (tag, r, vals), what="format_dependence")
          return
        continue
      ok, diff, tol = R.close(vals[0], ref, sc=o.vscale(rr) if r != 0 else abs(ref), mag=o.mag(rr))
      ctx.count("values_compared")
      if not ok:
        ctx.violation("meaning", "%s at r=%r: potable gives %r, documented meaning gives %s (|diff|=%.3g tol=%.3g); definition: %s" % (
          tag, r, vals[0], mp.nstr(ref, 15), diff, tol, emit.node_text(node, emit.Style(plain=True))[:300]), what="meaning")
        return
      if any(v != vals[0] and not (v != v and vals[0] != vals[0]) for v in vals[1:]):
        ctx.violation("format_dependence", "%s at r=%r differs between formatting variants of one file: %r" % (tag, r, vals), what="format_dependence")
        return
      if ref != 0:
        nz = True
      if apif is not None and r > 0:
        try:
          va = apif(r)
        except (OverflowError, ZeroDivisionError):
          continue
        ctx.count("api_equivalence_points")
        if not (abs(va - vals[0]) <= 1e-13 * max(abs(vals[0]), float(o.mag(rr)) * 1e-2, 1e-300)):
          ctx.violation("api_equivalence", "%s at r=%r: potable %r, same pieces through the Python API %r" % (tag, r, vals[0], va), what="api_equivalence")
          return
    if count_nodes(node) >= 2 or node["k"] == "custom":
      big = True
  # byte-identical tables for all formatting variants
  try:
    for t in tabs:
      outs.append(routes.write_tab(t))
  except (OverflowError, ZeroDivisionError, ValueError):
    ctx.count("model_out_of_domain")
    ctx.nontrivial(nz and big)
    return
  except Exception as e:
    et, fn = exc_sig(e)
    ctx.violation("exception", "write failed: %s %s" % (et, e), what="exception", exc=et, func=fn, variant="write")
    return
  for k, o2 in enumerate(outs[1:]):
    ctx.count("format_variants_compared")
    if o2 != outs[0]:
      ctx.violation("format_dependence", "the table written from formatting variant %d differs from the plain variant" % (k + 1), what="format_dependence")
      return
  ctx.nontrivial(nz and big)
