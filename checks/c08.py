"""C08 - multi-range potentials select exactly the range that contains r (DESIGN.md section 4, C08)."""
import itertools
import math
import random

import monitors
import refmodel as R
import routes
from harness import exc_sig
from spec import fnum

PROPERTY_ID = "C08"
LEVEL = "exploration"
RULE = ("range sets of 1-5 ranges over the starts {0,0.5,1,1.5,2,3} (forcing coincidences), any mix of '>' and '>=' with at most one of "
        "each marker per start; sub-potentials a_k+b_k r+c_k r^2 with unique identifiers in value, slope and curvature; r in {below, each "
        "start, nextafter(start,+-inf), midpoints, above}; ALL listing orders for <= 4 ranges (exhaustive) and 20 random ones for 5; "
        "through create_Multi_Range_Potential_Form and through potable text, incl. definitions without a leading marker. Non-trivial: "
        ">= 2 ranges; distinct = canonical JSON of the range set.")
ASSUMPTIONS = ["for r strictly above a start shared by '>=' and '>' either of the two tied ranges is accepted (DESIGN.md section 6), but value, "
               ".deriv and .deriv2 must come from one and the same range and not depend on the listing order",
               "two ranges with identical marker and start are ambiguous and only observed, not judged"]
ANCHORS = ["_multi_range_potential_form.py:Multi_Range_Potential_Form._range_search", "_multi_range_potential_form.py:_range_defn_cmp",
           "_multi_range_potential_form.py:Multi_Range_Potential_Form_Deriv2.deriv2", "_config_parser.py:ConfigParser._descend_tree",
           "_potential_form_builder.py:Potential_Form_Builder._make_multi_range_tuple"]
MIN_NONTRIVIAL = {"quick": 30, "thorough": 300}
MIN_COUNTERS = {"points_checked": 5000, "contract_range_search": 5000, "orders_checked": 300}
EXHAUSTIVE = True
TECHNIQUE = "runtime monitoring: reference selector as icontract postcondition on _range_search + boundary-point workload with identifying sub-potentials; listing orders enumerated"
LEVEL_TEXT = ("Exploration with an exhaustive part: for every generated range set all listing orders (<= 4 ranges) are built through the API and through "
              "potable text and evaluated at boundary points (each start, its floating-point neighbours, midpoints, below, above); unique "
              "identifying coefficients show which range supplied value, first and second derivative; an icontract postcondition on "
              "_range_search compares every selection made during the run with the reference selector.")
LEVEL_NOTE = "Trusted: the reference selector (15 lines, refmodel.select_range_candidates)."
DESIGN_REF = "DESIGN.md section 4, C08"

STARTS = [0.0, 0.5, 1.0, 1.5, 2.0, 3.0]


def gen_cases(rng, tier):
  n = 60 if tier == "quick" else 700
  cases = []
  seen = set()
  for i in range(n):
    k = rng.choice([1, 2, 2, 3, 3, 4, 4, 5])
    slots = [(m, s) for s in STARTS for m in (">", ">=")]
    if i % 7 == 3:
      s0 = rng.choice(STARTS)
      chosen = [(">", s0), (">=", s0)] + rng.sample([x for x in slots if x[1] != s0], max(0, k - 2))
    else:
      chosen = rng.sample(slots, k)
    if i % 6 == 4:
      # range starts BELOW zero (the grammar admits them; a definition for r > -1 acts at the r = 0 row of a table):
      # the whole set shifted down, so that some starts are negative and several may lie at or below 0
      sh_ = [1.0, 2.5, 0.75][(i // 6) % 3]
      chosen = [(m_, s_ - sh_) for m_, s_ in chosen]
    chosen = sorted(set(chosen))
    if i % 5 == 2:
      # two ranges with identical marker AND start: which of the two acts where they are selected is
      # ambiguous (accepted either way), but everywhere else the selection is still fully determined
      chosen = sorted(chosen + [rng.choice(chosen)])
    key = tuple(chosen)
    if key in seen:
      continue
    seen.add(key)
    parts = []
    for j, (m, s) in enumerate(chosen):
      parts.append([m, s, [float(j + 1), float(10 * (j + 1)), float(100 * (j + 1))]])
    dup = (i % 11 == 5)
    cases.append({"parts": parts, "order_seed": rng.randrange(1 << 30), "ambiguous_dup": dup})
  # starts closer together than doubles resolve, one an int and one a float (2**53 + 1 next to 2.0**53): the ordering of
  # the ranges is by their exact values (a difference a.start - b.start would round to 0.0)
  B = 9007199254740992
  for k, chosen in enumerate([[(">", float(B)), (">", B + 1), (">=", 0.0)], [(">=", B + 1), (">", float(B)), (">", float(B + 2))], [(">", B + 1), (">=", float(B)), (">", 1.5)]]):
    parts = [[m_, s_, [float(j + 1), float(10 * (j + 1)) * 1e-16, 0.0]] for j, (m_, s_) in enumerate(chosen)]
    cases.append({"parts": parts, "order_seed": rng.randrange(1 << 30), "ambiguous_dup": False, "huge_int_starts": 1})
  if tier in ["quick","thorough"]:
    cases.append({"kind": "suite"})   # the repository's own tests with this check's contracts armed
  return cases


_contracts = None


def setup_worker():
  global _contracts
  from atsim.potentials import _multi_range_potential_form as mr
  _contracts = monitors.Contracts()

  def cond(args, kwargs, result):
    self, r = args[0], args[1]
    defs = list(self.range_defns)
    parts = [(d.range_type, d.start, None) for d in defs]
    cand = R.select_range_candidates(parts, R.F(r))
    if not cand:
      return (result is None), "r=%r below every range but _range_search returned %r" % (r, result)
    if result is None:
      return False, "r=%r admitted by ranges %s but _range_search returned None" % (r, [parts[i][:2] for i in cand])
    ok = any(defs[i] is result for i in cand)
    if not ok:
      # identical (marker, start) duplicates are ambiguous: accept any of them
      ok = any((defs[i].range_type, defs[i].start) == (result.range_type, result.start) for i in cand)
    return ok, "r=%r: selected (%s, %s), reference admits %s" % (r, result.range_type, result.start, [parts[i][:2] for i in cand])
  _contracts.ensure(mr.Multi_Range_Potential_Form, "_range_search", cond, "range_search")


def points(parts):
  starts = sorted(set(s for _, s, _ in parts))
  pts = set([starts[0] - 1.0, starts[0] - 1e-9, starts[-1] + 0.7, starts[-1] + 50.0, -0.5, 0.0, -1e-300, 5e-324])
  for s in starts:
    pts.update([s, math.nextafter(s, math.inf), math.nextafter(s, -math.inf), s + 1e-9, s - 1e-9])
  for a, b in zip(starts, starts[1:]):
    pts.add((a + b) / 2)
  return sorted(pts)


def eval_orders(pts, rng):
  """The selection must not depend on what was evaluated before: visit the points in
  ascending, descending and shuffled order (the same object serves all of them)."""
  sh = list(pts)
  rng.shuffle(sh)
  return list(pts) + list(reversed(pts)) + sh


def poly(c, r, order):
  a, b, cc = c
  if order == 0:
    return a + b * r + cc * r * r
  if order == 1:
    return b + 2 * cc * r
  return 2 * cc


def same_slot(parts, a, b):
  """Two selected indices denote duplicates of one (marker, start) slot - an ambiguous definition."""
  return a is not None and b is not None and tuple(parts[a][:2]) == tuple(parts[b][:2])


def judge(ctx, parts, f, r, route, order_desc, zero_below=None, default=0.0, admit=None):
  """Returns the index of the range that supplied the value (or None) after checking it."""
  try:
    v, d1, d2 = f(r), f.deriv(r), f.deriv2(r)
  except Exception as e:
    et, fn = exc_sig(e)
    ctx.violation("exception", "evaluation failed at r=%r: %s %s" % (r, et, e), what="exception", exc=et, func=fn)
    return "err"
  ctx.count("points_checked")
  plain = [(m, s, None) for m, s, _ in parts]
  cand = R.select_range_candidates(plain, R.F(r))
  if zero_below is not None and r <= zero_below:
    cand = []
  if admit is not None and not admit(r):
    cand = []      # an enclosing range does not admit r: nothing inside it acts
  if not cand:
    if not (v == default and d1 == 0 and d2 == 0):
      ctx.violation("below_first_range", "r=%r below every range: value=%r deriv=%r deriv2=%r, expected %r 0 0 (route %s, order %s)" % (r, v, d1, d2, default, route, order_desc), what="below_first_range")
    return None
  hits = []
  for i in cand:
    c = parts[i][2]
    okv = abs(v - poly(c, r, 0)) <= 1e-9 * (1 + abs(v))
    ok1 = abs(d1 - poly(c, r, 1)) <= 1e-9 * (1 + abs(d1))
    ok2 = abs(d2 - poly(c, r, 2)) <= 1e-9 * (1 + abs(d2))
    if okv and ok1 and ok2:
      hits.append(i)
  if not hits:
    # find which ranges supplied each quantity
    src = []
    for order, val in ((0, v), (1, d1), (2, d2)):
      who = [(parts[i][0], parts[i][1]) for i in range(len(parts)) if abs(val - poly(parts[i][2], r, order)) <= 1e-9 * (1 + abs(val))]
      src.append(who)
    kind = "selection"
    if src[0] and any(x in [(parts[i][0], parts[i][1]) for i in cand] for x in src[0]):
      kind = "derivative_from_other_range"
    ctx.violation(kind, "r=%r: value/deriv/deriv2 = %r/%r/%r supplied by ranges %s; reference admits %s (route %s, listing %s)" % (
      r, v, d1, d2, src, [(parts[i][0], parts[i][1]) for i in cand], route, order_desc), what=kind)
    return "bad"
  if len(cand) > 1:
    ctx.cls("tie_above_shared_start_won_by:" + parts[hits[0]][0])
  return hits[0]


def run_case(case, ctx):
  if case.get("kind") == "suite":
    import suite_contracts
    ctx.cls("kind:suite_with_contracts")
    return suite_contracts.run_suite(ctx, 'c08', ['range_search'])
  from atsim.potentials import potentialforms as pf
  from atsim.potentials import create_Multi_Range_Potential_Form, Multi_Range_Defn
  parts = case["parts"]
  rng = random.Random(case["order_seed"])
  n = len(parts)
  ctx.cls("nranges:%d" % n)
  if case.get("huge_int_starts"):
    ctx.cls("int_and_float_starts_closer_than_doubles_resolve")
  ctx.nontrivial(n >= 2)
  shared = len(set(s for _, s, _ in parts)) < n
  if shared:
    ctx.cls("shared_start")
  if any(s_ < 0 for _, s_, _ in parts):
    ctx.cls("negative_range_starts")
  if len(set((m, s) for m, s, _ in parts)) < n:
    ctx.cls("duplicate_marker_and_start")
  perms = list(itertools.permutations(range(n)))
  if n > 4:
    perms = [perms[0]] + rng.sample(perms[1:], 20)
  pts = points(parts)
  before = _contracts.counts.get("range_search", 0)
  nf0 = len(_contracts.failures)
  winners = {}
  # ---------------- API route
  for pi_, perm in enumerate(perms):
    defs = [Multi_Range_Defn(parts[i][0], parts[i][1], pf.polynomial(*parts[i][2])) for i in perm]
    # the documented default_value keyword (returned below the first range; 0.0 unless given), by keyword at
    # construction, through the class itself, or assigned afterwards
    dflt = 0.0
    if pi_ % 4 == 1:
      dflt = 7.25
      f = create_Multi_Range_Potential_Form(*defs, default_value=dflt)
      ctx.cls("default_value:keyword")
    elif pi_ % 4 == 2:
      from atsim.potentials._multi_range_potential_form import Multi_Range_Potential_Form_Deriv2
      dflt = -3.5
      f = Multi_Range_Potential_Form_Deriv2(*defs, default_value=dflt)
      ctx.cls("default_value:class_constructor")
    elif pi_ % 4 == 3:
      f = create_Multi_Range_Potential_Form(*defs)
      dflt = 11.0
      f.default_value = dflt
      ctx.cls("default_value:assigned")
    else:
      f = create_Multi_Range_Potential_Form(*defs)
    if not (hasattr(f, "deriv") and hasattr(f, "deriv2")):
      ctx.violation("hasattr", "multi-range of analytic forms offers no deriv/deriv2", what="hasattr")
      return
    ctx.count("orders_checked")
    for r in eval_orders(pts, rng):
      w = judge(ctx, parts, f, r, "api", list(perm), default=dflt)
      if w in ("err", "bad"):
        return
      if winners.setdefault(r, w) != w and not same_slot(parts, w, winners[r]):
        ctx.violation("order_dependence", "r=%r: listing %s selects range %s but another listing selected %s" % (r, list(perm), w, winners[r]), what="order_dependence")
        return
  # ---------------- API usage variant: one object whose ranges are replaced through the public range_defns property
  # between evaluations at the SAME separation (nothing remembered from the old set may be used for the new one)
  parts2 = [[(">=" if m == ">" else ">") if (k + n) % 2 else m, s + (0.5 if k % 2 else 0.0), [c[0] + 1000.0, c[1] - 3.0, c[2] + 0.5]] for k, (m, s, c) in enumerate(parts)]
  mk = lambda ps, order: [Multi_Range_Defn(ps[i][0], ps[i][1], pf.polynomial(*ps[i][2])) for i in order]
  f = create_Multi_Range_Potential_Form(*mk(parts, range(n)))
  pts2 = sorted(set(pts) | set(points(parts2)))
  cur = parts
  # (the derived range sets below shift starts by 0.5: meaningless for int starts beyond 2**53, which that addition rounds)
  for j, r in enumerate(eval_orders(pts2, rng)[:3 * len(pts2)] if not case.get("huge_int_starts") else []):
    if judge(ctx, cur, f, r, "api-reassigned-ranges", "as set") in ("err", "bad"):
      return
    cur = parts2 if cur is parts else parts
    order = list(range(n))
    rng.shuffle(order)
    newdefs = mk(cur, order)
    f.range_defns = [tuple(newdefs), newdefs, (d for d in newdefs)][j % 3]
    if judge(ctx, [cur[i] for i in order], f, r, "api-reassigned-ranges", "after range_defns assignment") in ("err", "bad"):
      return
    ctx.count("reassignments_checked")
  # ---------------- API usage variant: the SAME Multi_Range_Defn objects serve two potential forms whose other ranges
  # differ (where a range ends belongs to the form, not to the definition object)
  if n >= 2 and not case.get("huge_int_starts"):
    defs_a = mk(parts, range(n))
    shift = [[m_, s_ + (0.5 if k_ else 0.0), c_] for k_, (m_, s_, c_) in enumerate(parts)]
    fa = create_Multi_Range_Potential_Form(*defs_a)
    # second form: keeps the first definition OBJECT, its other ranges start 0.5 later
    defs_b = [defs_a[0]] + mk(shift, range(1, n))
    fb = create_Multi_Range_Potential_Form(*defs_b)
    for r in eval_orders(sorted(set(pts) | set(points(shift))), rng)[:120]:
      if judge(ctx, parts, fa, r, "api-shared-definition-objects", "first form, evaluated after the second was built") in ("err", "bad"):
        return
      if judge(ctx, shift, fb, r, "api-shared-definition-objects", "second form") in ("err", "bad"):
        return
      ctx.count("shared_definition_points")
  # ---------------- a LONE range around the whole multi-range potential (what potable's single-argument sum() is): the
  # outer range admits r or it does not, with its own marker - also when it starts exactly where the inner one does
  smin = min(s_ for _, s_, _ in parts)
  inner = create_Multi_Range_Potential_Form(*mk(parts, range(n)))
  for mo, so in [(">", smin), (">=", smin), (">", smin - 0.5), (">=", smin + 0.5), (">", pts[len(pts) // 2])]:
    fo = create_Multi_Range_Potential_Form(Multi_Range_Defn(mo, so, inner))
    adm = (lambda r_, so=so: r_ > so) if mo == ">" else (lambda r_, so=so: r_ >= so)
    for r in eval_orders(sorted(set(pts) | set([so, math.nextafter(so, math.inf), math.nextafter(so, -math.inf)])), rng)[:80]:
      if judge(ctx, parts, fo, r, "api-lone-range-around-multi-range", "outer %s%r" % (mo, so), admit=adm) in ("err", "bad"):
        return
      ctx.count("lone_outer_range_points")
  # ---------------- potable route: all listings of this set in one file; the first part may omit '>0'
  lines = []
  metas = []
  listing0 = " ".join("%s%s as.polynomial %s" % (m, fnum(s_), " ".join(fnum(x) for x in c)) for m, s_, c in parts)
  lines.append("N0-X : sum(%s)" % listing0)
  lines.append("N1-X : >=%s sum(%s)" % (fnum(smin), listing0))
  lines.append("N2-X : >%s product(%s)" % (fnum(smin), listing0))
  for k, perm in enumerate(perms):
    toks = []
    for j, i in enumerate(perm):
      m, s, c = parts[i]
      body = "as.polynomial " + " ".join(fnum(x) for x in c)
      if j == 0 and m == ">" and s == 0.0 and rng.random() < 0.5:
        toks.append(body)
      else:
        toks.append("%s%s %s" % (m, fnum(s), body))
    lines.append("P%d-X : %s" % (k, " ".join(toks)))
    metas.append(perm)
  # a definition without a leading marker acts for r > 0 only
  c0 = [7.0, 70.0, 700.0]
  extra = [[m, s, c] for m, s, c in parts if s > 0.0]
  lines.append("Q-X : as.polynomial 7.0 70.0 700.0 " + " ".join("%s%s as.polynomial %s" % (m, fnum(s), " ".join(fnum(x) for x in c)) for m, s, c in extra))
  # modifier-headed definitions without a leading marker act for r > 0 only as well, even when their
  # arguments (explicit '>=-5' ranges) would be non-zero at r <= 0
  pa, pb = [2.0, 3.0, 5.0], [7.0, 11.0, 13.0]
  sa, sb = " ".join(fnum(x) for x in pa), " ".join(fnum(x) for x in pb)
  lines.append("MS-X : sum(>=-5 as.polynomial %s, >=-5 as.polynomial %s)" % (sa, sb))
  lines.append("MP-X : product(>=-5 as.polynomial %s, >=-5 as.polynomial %s)" % (sa, sb))
  lines.append("MT-X : trans(>=-5 as.polynomial %s, as.constant 1.0)" % sa)
  lines.append("ME-X : >0 sum(>=-5 as.polynomial %s, >=-5 as.polynomial %s)" % (sa, sb))
  text = "[Tabulation]\ntarget : LAMMPS\nnr : 5\ncutoff : 4.0\n\n[Pair]\n%s\n" % "\n".join(lines)
  try:
    tab = routes.read_config(text)
  except Exception as e:
    et, fn = exc_sig(e)
    ctx.violation("exception", "potable text refused: %s %s" % (et, e), what="exception", exc=et, func=fn)
    return
  pots = {p.speciesA: p.potentialFunction for p in tab.potentials}
  for k, perm in enumerate(metas):
    f = pots["P%d" % k]
    ctx.count("orders_checked")
    for r in eval_orders(pts, rng):
      w = judge(ctx, parts, f, r, "potable", list(perm))
      if w in ("err", "bad"):
        return
      if winners.setdefault(r, w) != w and not same_slot(parts, w, winners[r]):
        ctx.violation("order_dependence", "r=%r: potable listing %s selects range %s, other listings %s" % (r, list(perm), w, winners[r]), what="order_dependence")
        return
  for key, adm in (("N0", lambda r_: r_ > 0), ("N1", lambda r_: r_ >= smin), ("N2", lambda r_: r_ > smin)):
    for r in eval_orders(sorted(set(pts) | set([0.0, smin])), rng)[:80]:
      if judge(ctx, parts, pots[key], r, "potable-single-argument-modifier", key, admit=adm) in ("err", "bad"):
        return
      ctx.count("lone_outer_range_points")
  qparts = [[">", 0.0, c0]] + extra
  fq = pots["Q"]
  for r in eval_orders(pts, rng):
    if judge(ctx, qparts, fq, r, "potable-no-leading-marker", "as written") in ("err", "bad"):
      return
  ctx.count("default_start_points", len(pts))
  P = lambda c, r, o: poly(c, r, o)
  expect = {
    "MS": lambda r: (P(pa, r, 0) + P(pb, r, 0), P(pa, r, 1) + P(pb, r, 1), P(pa, r, 2) + P(pb, r, 2)),
    "ME": lambda r: (P(pa, r, 0) + P(pb, r, 0), P(pa, r, 1) + P(pb, r, 1), P(pa, r, 2) + P(pb, r, 2)),
    "MP": lambda r: (P(pa, r, 0) * P(pb, r, 0), P(pa, r, 1) * P(pb, r, 0) + P(pa, r, 0) * P(pb, r, 1),
                     P(pa, r, 2) * P(pb, r, 0) + 2 * P(pa, r, 1) * P(pb, r, 1) + P(pa, r, 0) * P(pb, r, 2)),
    "MT": lambda r: (P(pa, r + 1.0, 0), P(pa, r + 1.0, 1), P(pa, r + 1.0, 2)),
  }
  for key, fn in expect.items():
    f = pots[key]
    for r in eval_orders([-2.0, -0.5, -1e-9, 0.0, 5e-324, 1e-9, 0.5, 1.0, 2.5], rng):
      try:
        got = (f(r), f.deriv(r), f.deriv2(r))
      except Exception as e:
        et, fnn = exc_sig(e)
        ctx.violation("exception", "%s at r=%r: %s %s" % (key, r, et, e), what="exception", exc=et, func=fnn)
        return
      want = fn(r) if r > 0 else (0.0, 0.0, 0.0)
      ctx.count("modifier_default_start_points")
      if any(not (abs(g - w) <= 1e-9 * (1 + abs(w))) for g, w in zip(got, want)):
        ctx.violation("modifier_default_start", "%s-X (modifier without leading range marker) at r=%r: value/deriv/deriv2 = %r, expected %r (acts for r > 0 only)" % (key, r, got, want),
                      what="modifier_default_start")
        return
  # ---------------- ambiguous duplicates: observational only
  if case.get("ambiguous_dup") and n >= 1:
    m, s, c = parts[0]
    defs = [Multi_Range_Defn(m, s, pf.polynomial(*c)), Multi_Range_Defn(m, s, pf.polynomial(9.0, 90.0, 900.0))]
    f = create_Multi_Range_Potential_Form(*defs)
    v = f(s + 0.25)
    ctx.cls("ambiguous_duplicate_observed:%s" % ("first" if abs(v - poly(c, s + 0.25, 0)) < 1e-9 else "second"))
    # Which of two ranges with the SAME marker and start applies is not fixed by the statement - but "the result does not
    # depend on the order in which the ranges were listed" is: both listings must be the same function
    f2 = create_Multi_Range_Potential_Form(*reversed(defs))
    for r_ in ([s] if m == ">=" else []) + [s + 0.25, s + 1e-7]:
      ctx.count("duplicate_slot_points")
      if f(r_) != f2(r_):
        ctx.violation("order_dependence", "two ranges '%s%s': listed A,B the value at r=%r is %r, listed B,A it is %r" % (m, s, r_, f(r_), f2(r_)), what="order_dependence", mech="identical_marker_and_start")
        break
  ctx.count("contract_range_search", _contracts.counts.get("range_search", 0) - before)
  for cname, msg, _ in _contracts.failures[nf0:nf0 + 3]:
    ctx.violation("contract", "%s: %s" % (cname, msg), what="contract", contract=cname)
