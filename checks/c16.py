"""C16 - malformed models give configuration errors; valid models are never rejected (DESIGN.md section 4, C16)."""
import copy
import random
import re

import basemodels as bm
import routes
from harness import exc_sig

PROPERTY_ID = "C16"
LEVEL = "exploration"
RULE = ("feature-rich valid base models (every section and construct present) for all 11 targets and every option value the reference manual "
        "lists (incl. LAMMPS_eam_alloy as printed there, DL_POLY, DLPOLY, cubic_spline) must be accepted; a catalogue of ~60 malformation "
        "operators is applied EXHAUSTIVELY: operator x every base model it applies to (x every applicable entry position chosen by seed); each "
        "mutant must be refused with a configuration error - through Configuration().read()/write() and through potable main() (exit status 2, "
        "'configuration error - ', OUTPUT_FILE absent or empty). One case = (operator, base model); non-trivial: every mutant and every valid "
        "model; distinct = canonical JSON of (operator, target, seed).")
ASSUMPTIONS = ["the catalogue is my reading of 'structurally malformed' from the statement's own list; operators that yield a still-valid model are not included",
               "an error detected only while writing (e.g. an undefined name inside a formula) still counts as refused if it is a configuration error and leaves no table"]
ANCHORS = ["_configuration.py:Configuration.read_from_parser", "potable/__init__.py:main", "_pair_potential_builder.py:Pair_Potentials_From_Tuples_Builder._init_potentials",
           "_modifiers.py:spline", "_modifiers.py:trans", "_config_parser.py:_TableFormSection._parse_data", "_config_parser.py:ConfigParser._pair_species_func",
           "_potential_form.py:_Check_Call.__call__"]
MIN_NONTRIVIAL = {"quick": 300, "thorough": 3000}
MIN_COUNTERS = {"mutants_judged": 300, "valid_models_judged": 20, "cli_outcomes": 40}
EXHAUSTIVE = True
TECHNIQUE = "runtime monitoring: outcome classifier (accepted / configuration error / internal exception) over an exhaustively applied malformation-operator catalogue; CLI exit status, stderr and output file observed"
LEVEL_TEXT = ("Exhaustive over (operator x applicable base model) for a catalogue of about 60 structural malformation operators covering every section "
              "of the input format; each mutant and each valid model is run through the real reader/writer and through potable main(), and the "
              "outcome is classified by exception type and innermost repository function. Inputs outside the catalogue are not covered.")
LEVEL_NOTE = "Trusted: the operator catalogue produces genuinely malformed files (each was reviewed by hand once)."
DESIGN_REF = "DESIGN.md section 4, C16"

ALL_TARGETS = bm.PAIR_TARGETS + bm.EAM_TARGETS + bm.FS_TARGETS + bm.ADP_TARGETS


# ---------------------------------------------------------------- operators
# each operator: (name, kinds it applies to, function(items, info, rng) -> items | raw text | None)

def _pairsec(items):
  return bm.sec(items, "Pair")[1]


def set_tab(items, key, value):
  t = bm.sec(items, "Tabulation")[1]
  for kv in t:
    if kv[0] == key:
      if value is None:
        t.remove(kv)
      else:
        kv[1] = value
      return items
  if value is not None:
    t.append([key, value])
  return items


def entry(items, pred, section="Pair"):
  return bm.find(items, section, pred)


def op_value(section, pred, fn):
  def f(items, info, rng):
    kv = entry(items, pred, section)
    if kv is None:
      return None
    kv[1] = fn(kv[1], rng)
    return items
  return f


def op_key(section, pred, fn):
  def f(items, info, rng):
    kv = entry(items, pred, section)
    if kv is None:
      return None
    kv[0] = fn(kv[0], rng)
    return items
  return f


def late_wrong_call(formula):
  def f(items, info, rng):
    pairs = bm.sec(items, "Pair")[1]
    pairs[-1][1] = "wr 1.5"                       # the last pair entry: everything before it has been evaluated correctly
    bm.sec(items, "Potential-Form")[1].append(["wr(r, k)", formula])
    return items
  return f


def drop_section(name):
  def f(items, info, rng):
    s = bm.sec(items, name)
    if s is None:
      return None
    items.remove(s)
    return items
  return f


def any_definition_section(info, rng):
  secs = ["Pair"]
  if info["kind"] != "pair":
    secs += ["EAM-Embed", "EAM-Density"]
  if info["kind"] == "adp":
    secs += ["EAM-ADP-Dipole", "EAM-ADP-Quadrupole"]
  return rng.choice(secs)


def in_any_section(fn_value, fixed_arity=False):
  """Apply a value mutation to a plain 'as.' entry of a randomly chosen definition section
  (fixed_arity: not as.polynomial, which takes any number of coefficients)."""
  def f(items, info, rng):
    s = any_definition_section(info, rng)
    ok = (lambda v: not v.startswith("as.polynomial")) if fixed_arity else (lambda v: True)
    kv = entry(items, lambda k, v: v.startswith("as.") and ">" not in v and ok(v), s)
    if kv is None:
      kv = entry(items, lambda k, v: v.startswith("as.") and ok(v), "Pair")
    kv[1] = fn_value(kv[1], rng)
    return items
  return f


def tbl(items):
  return bm.sec(items, "Table-Form:tbl")[1]


def tf(fn):
  def f(items, info, rng):
    return fn(items, rng)
  return f


def tf_only(which):
  def g(items, rng):
    t = tbl(items)
    t[:] = [kv for kv in t if kv[0] != which]
    return items
  return tf(g)


def tf_set(pairs, drop=()):
  def g(items, rng):
    t = tbl(items)
    t[:] = [kv for kv in t if kv[0] not in drop and kv[0] not in dict(pairs)]
    for k, v in pairs:
      t.append([k, v])
    return items
  return tf(g)


def raw(fn):
  def f(items, info, rng):
    return fn(bm.items_text(items), rng)
  return f


IS_SPLINE_EXP = lambda k, v: v.startswith("spline(") and "exp_spline" in v
IS_SPLINE_B4 = lambda k, v: v.startswith("spline(") and "buck4_spline" in v
IS_TRANS = lambda k, v: v.startswith("trans(")
IS_PLAIN = lambda k, v: v.startswith("as.")
USES_CF = lambda k, v: "cf " in v
USES_TBL = lambda k, v: v.endswith(" tbl") or v == "tbl"

OPS = [
  # ---- [Tabulation]
  ("unknown_target", "*", lambda it, info, rng: set_tab(it, "target", rng.choice(["FOO", "lammps", "SETFL", "DL_POLY_EAM_FS", ""]))),
  ("nr_dr_cutoff_all_given", "*", lambda it, info, rng: set_tab(it, "dr", "0.01")),
  ("all_three_given_one_spelt_zero", "*", lambda it, info, rng: (lambda z: set_tab(set_tab(it, "dr", "0.01"), "cutoff", z) if rng.random() < 0.7 else set_tab(it, "dr", z))(rng.choice(["0", "0.0", "-0.0", "0e0", "+.0", "00"]))),
  ("rho_all_three_given_one_spelt_zero", "eam fs adp", lambda it, info, rng: set_tab(set_tab(it, "drho", "0.5"), "cutoff_rho", rng.choice(["0", "0.0", "-0.0", "0e0"]))),
  ("step_alone", "*", lambda it, info, rng: set_tab(set_tab(set_tab(it, "nr", None), "cutoff", None), "dr", "0.01")),
  ("nonpositive_nr", "*", lambda it, info, rng: set_tab(it, "nr", rng.choice(["0", "-8"]))),
  ("nonpositive_cutoff", "*", lambda it, info, rng: set_tab(it, "cutoff", rng.choice(["0", "-2.5", "0.0"]))),
  ("nonnumeric_nr", "*", lambda it, info, rng: set_tab(it, "nr", rng.choice(["abc", "2.5", "1e3", "ten", ""]))),
  ("nonnumeric_cutoff", "*", lambda it, info, rng: set_tab(it, "cutoff", rng.choice(["abc", "1,5", "10 Angstrom"]))),
  ("one_row_grid", "*", lambda it, info, rng: set_tab(it, "nr", "1")),
  ("dlpoly_four_row_grid", "dlpoly", lambda it, info, rng: set_tab(it, "nr", "4")),   # delpot = cutoff/(nr-4) does not exist
  ("nonfinite_cutoff", "*", lambda it, info, rng: set_tab(it, "cutoff", rng.choice(["nan", "inf", "-inf", "NaN", "Infinity"]))),
  ("nonfinite_dr", "*", lambda it, info, rng: set_tab(set_tab(it, "cutoff", None), "dr", rng.choice(["nan", "inf"]))),
  ("nonfinite_dr_with_cutoff", "*", lambda it, info, rng: set_tab(set_tab(it, "nr", None), "dr", rng.choice(["nan", "inf"]))),
  ("nonfinite_cutoff_rho", "eam fs adp", lambda it, info, rng: set_tab(it, "cutoff_rho", rng.choice(["nan", "inf"]))),
  ("dr_larger_than_cutoff", "*", lambda it, info, rng: set_tab(set_tab(it, "nr", None), "dr", "50.0")),
  ("nonpositive_nrho", "eam fs adp", lambda it, info, rng: set_tab(it, "nrho", rng.choice(["0", "-3"]))),
  ("nonnumeric_cutoff_rho", "eam fs adp", lambda it, info, rng: set_tab(it, "cutoff_rho", "lots")),
  ("one_row_rho_grid", "eam fs adp", lambda it, info, rng: set_tab(it, "nrho", "1")),
  ("rho_all_three", "eam fs adp", lambda it, info, rng: set_tab(it, "drho", "0.5")),
  # ---- potential definitions
  ("unknown_form", "*", in_any_section(lambda v, rng: rng.choice(["as.buckingham", "nosuchform", "as.Buck", "pymath.exp"]) + " 1.0 2.0")),
  ("unknown_modifier", "*", in_any_section(lambda v, rng: "%s(%s)" % (rng.choice(["add", "Sum", "multiply", "as.sum"]), v))),
  ("too_few_parameters", "*", in_any_section(lambda v, rng: " ".join(v.split()[:-1]), fixed_arity=True)),
  ("too_many_parameters", "*", in_any_section(lambda v, rng: v + " 1.5", fixed_arity=True)),
  ("custom_form_too_few", "*", op_value("Pair", USES_CF, lambda v, rng: re.sub(r"cf (\S+) (\S+)", r"cf \1", v))),
  ("custom_form_too_many", "*", op_value("Pair", USES_CF, lambda v, rng: re.sub(r"cf (\S+) (\S+)", r"cf \1 \2 3.0", v))),
  ("table_form_given_parameters", "*", op_value("Pair", USES_TBL, lambda v, rng: v + " 1.0")),
  ("nonnumeric_parameter", "*", in_any_section(lambda v, rng: " ".join(v.split()[:-1] + [rng.choice(["abc", "1.0e", "--2"])]))),
  ("unbalanced_parenthesis", "*", op_value("Pair", lambda k, v: v.startswith("sum("), lambda v, rng: rng.choice([v[:-1], v + ")", v.replace("(", "((", 1)]))),
  ("less_than_range_marker", "*", op_value("Pair", lambda k, v: v.startswith(">0 "), lambda v, rng: v.replace(">=3.0", "<3.0"))),
  ("range_marker_without_number", "*", op_value("Pair", lambda k, v: v.startswith(">0 "), lambda v, rng: v.replace(">=3.0", ">="))),
  # a malformed part of a multi-range definition that a later part with the SAME marker and start would "replace": every
  # part of the definition is still built and checked
  ("malformed_range_before_same_start", "*", op_value("Pair", IS_PLAIN, lambda v, rng: rng.choice([
      ">=1.0 as.nosuchform 1 2 >=1.0 " + v, ">1.5 nosuchmod(as.constant 1) >1.5 " + v, ">=2 as.buck 1000.0 0.3 >=2.0 " + v,
      "as.buck 1000.0 0.3 >0 " + v, ">0 as.buck 1000.0 >0.0 " + v, ">=1 spline(as.constant 1 >2 exp_spline) >=1 " + v]))),
  ("malformed_range_after_same_start", "*", op_value("Pair", IS_PLAIN, lambda v, rng: rng.choice([
      ">=1.0 " + v + " >=1.0 as.nosuchform 1 2", ">0 " + v + " >0.0 as.buck 1000.0"]))),
  ("empty_definition", "*", in_any_section(lambda v, rng: "")),
  ("run_together_numerals", "*", in_any_section(lambda v, rng: (lambda t: " ".join(t[:-1] + [t[-1] + rng.choice([".5", ".25.1"]) if "." in t[-1] else t[-1] + ".5.5"]))(v.split()))),
  ("buck4_rmin_below_detach", "*", op_value("Pair", IS_PLAIN, lambda v, rng: "as.buck4 1000.0 0.3 30.0 1.0 0.5 2.0")),
  ("buck4_rmin_equals_detach", "*", op_value("Pair", IS_PLAIN, lambda v, rng: "as.buck4 1000.0 0.3 30.0 1.0 1.0 2.0")),
  ("buck4_rmin_beyond_attach", "*", op_value("Pair", IS_PLAIN, lambda v, rng: "as.buck4 1000.0 0.3 30.0 1.0 2.5 2.0")),
  ("buck4_detach_beyond_attach", "*", op_value("Pair", IS_PLAIN, lambda v, rng: "as.buck4 1000.0 0.3 30.0 2.0 1.5 1.0")),
  ("pair_key_empty_species", "*", op_key("Pair", IS_PLAIN, lambda k, rng: rng.choice([k.split("-")[0] + "-", "-" + k.split("-")[1], "-"]))),
  ("pair_key_without_dash", "*", op_key("Pair", IS_PLAIN, lambda k, rng: k.replace("-", ""))),
  ("pair_key_two_dashes", "*", op_key("Pair", IS_PLAIN, lambda k, rng: k + "-Zr")),
  ("adp_key_without_dash", "adp", op_key("EAM-ADP-Dipole", lambda k, v: True, lambda k, rng: k.replace("-", ""))),
  # ---- spline()
  ("spline_one_part", "*", op_value("Pair", IS_SPLINE_EXP, lambda v, rng: "spline(" + v[7:].split(">=")[0].strip() + ")")),
  ("spline_two_parts", "*", op_value("Pair", IS_SPLINE_EXP, lambda v, rng: ">=".join(v.split(">=")[:2]).strip() + ")")),
  ("spline_four_parts", "*", op_value("Pair", IS_SPLINE_EXP, lambda v, rng: v[:-1] + " >=3.0 as.constant 0.0)")),
  ("spline_two_arguments", "*", op_value("Pair", IS_SPLINE_EXP, lambda v, rng: v[:-1] + ", as.constant 1.0)")),
  ("spline_middle_is_modifier", "*", op_value("Pair", IS_SPLINE_EXP, lambda v, rng: v.replace("exp_spline", "sum(as.constant 1.0, as.constant 2.0)"))),
  ("spline_middle_written_as_a_call", "*", op_value("Pair", IS_SPLINE_EXP, lambda v, rng: v.replace("exp_spline", rng.choice(["exp_spline(as.constant 1.0)", "exp_spline()", "buck4_spline(as.constant 1.1)"])))),
  ("spline_unknown_type", "*", op_value("Pair", IS_SPLINE_EXP, lambda v, rng: v.replace("exp_spline", rng.choice(["cubic_spline", "as.exp_spline", "spline5"])))),
  ("exp_spline_given_parameters", "*", op_value("Pair", IS_SPLINE_EXP, lambda v, rng: v.replace("exp_spline", "exp_spline 1.1"))),
  ("buck4_spline_missing_r_min", "*", op_value("Pair", IS_SPLINE_B4, lambda v, rng: v.replace("buck4_spline 1.5", "buck4_spline"))),
  ("buck4_spline_extra_parameter", "*", op_value("Pair", IS_SPLINE_B4, lambda v, rng: v.replace("buck4_spline 1.5", "buck4_spline 1.5 1.7"))),
  ("buck4_spline_r_min_below_detach", "*", op_value("Pair", IS_SPLINE_B4, lambda v, rng: v.replace("buck4_spline 1.5", "buck4_spline 0.5"))),
  ("buck4_spline_r_min_above_attach", "*", op_value("Pair", IS_SPLINE_B4, lambda v, rng: v.replace("buck4_spline 1.5", "buck4_spline 2.5"))),
  ("spline_reversed_range_starts", "*", op_value("Pair", IS_SPLINE_EXP, lambda v, rng: v.replace(">=0.8", ">=1.9"))),
  ("spline_start_beyond_detach", "*", op_value("Pair", IS_SPLINE_EXP, lambda v, rng: v.replace("spline(", "spline(>=1.0 "))),
  # ---- trans()
  ("trans_one_argument", "*", op_value("Pair", IS_TRANS, lambda v, rng: v.split(",")[0] + ")")),
  ("trans_shift_given_ranges", "*", op_value("Pair", IS_TRANS, lambda v, rng: re.sub(r",\s*as\.constant\s+(\S+?)\)$", lambda m_: rng.choice(
      [", >=3 as.constant %s)", ", as.constant %s >2 as.constant 5.0)", ", >3 as.constant %s >4 as.buck 1 2 3)", ", >1.5 as.constant %s)"]) % m_.group(1), v))),
  ("trans_three_arguments", "*", op_value("Pair", IS_TRANS, lambda v, rng: v[:-1] + ", as.constant 1.0)")),
  ("trans_second_not_constant", "*", op_value("Pair", IS_TRANS, lambda v, rng: re.sub(r"as\.constant \S+\)$", "as.polynomial 1.0)", v))),
  ("trans_constant_without_value", "*", op_value("Pair", IS_TRANS, lambda v, rng: re.sub(r"as\.constant \S+\)$", "as.constant)", v))),
  ("trans_constant_two_values", "*", op_value("Pair", IS_TRANS, lambda v, rng: v[:-1] + " 2.0)")),
  ("trans_second_is_modifier", "*", op_value("Pair", IS_TRANS, lambda v, rng: re.sub(r"as\.constant (\S+)\)$", r"sum(as.constant \1))", v))),
  # ---- species keys of EAM sections
  ("fs_key_without_arrow", "fs", op_key("EAM-Density", lambda k, v: True, lambda k, rng: k.replace("->", ""))),
  ("fs_key_two_arrows", "fs", op_key("EAM-Density", lambda k, v: True, lambda k, rng: k + "->Zr")),
  ("fs_keys_under_standard_target", "eam adp", lambda it, info, rng: (bm.sec(it, "EAM-Density")[1].__setitem__(0, ["%s->%s" % (info["species"][0], info["species"][1]), "as.constant 1.0"]), it)[1]),
  ("standard_keys_under_fs_target", "fs", lambda it, info, rng: (bm.sec(it, "EAM-Density").__setitem__(1, [[s, "as.constant 1.0"] for s in info["species"]]), it)[1]),
  # ---- [Species]
  ("species_key_without_dot", "*", op_key("Species", lambda k, v: True, lambda k, rng: k.replace(".", "_"))),
  ("species_value_nonnumeric", "*", op_value("Species", lambda k, v: k.endswith("atomic_mass") or k.endswith("lattice_constant"), lambda v, rng: rng.choice(["heavy", "1,5", "12 amu"]))),
  ("species_value_nonfinite", "*", op_value("Species", lambda k, v: k.endswith("atomic_mass") or k.endswith("lattice_constant"), lambda v, rng: rng.choice(["nan", "inf", "-inf", "NaN", "Infinity"]))),
  ("species_lattice_type_not_one_word", "*", lambda it, info, rng: (bm.sec(it, "Species")[1].append(["%s.lattice_type" % info["species"][0], rng.choice(
      ["bcc\n    %s.lattice_constant : 4.05" % info["species"][0], "fcc lattice", "bcc\n  9 9 9 fcc", "h c p"])]), it)[1]),
  # (the [Species] operators apply to PAIR files as well: the user guide lists the section for them, no pair target uses it)
  ("species_key_with_an_empty_half", "*", lambda it, info, rng: ((bm.sec(it, "Species")[1] if bm.sec(it, "Species") else it.append(["Species", []]) or bm.sec(it, "Species")[1]).append(
      rng.choice([[".atomic_mass", "26.98"], ["Al.", "26.98"], [".", "1.0"], [" .lattice_type", "bcc"]])), it)[1]),
  ("species_atomic_number_not_integer", "*", lambda it, info, rng: (bm.sec(it, "Species")[1].append(["%s.atomic_number" % info["species"][0], rng.choice(["13.5", "thirteen"])]), it)[1]),
  ("unknown_species_without_mass", "eam adp", lambda it, info, rng: (bm.sec(it, "EAM-Embed")[1].append(["Xq", "as.constant 1.0"]), bm.sec(it, "EAM-Density")[1].append(["Xq", "as.constant 1.0"]), it)[2]),
  # ---- missing sections
  ("missing_pair_section", "*", drop_section("Pair")),
  ("missing_embed_section", "eam fs adp", drop_section("EAM-Embed")),
  ("missing_density_section", "eam fs adp", drop_section("EAM-Density")),
  ("missing_adp_dipole_section", "adp", drop_section("EAM-ADP-Dipole")),
  ("missing_adp_quadrupole_section", "adp", drop_section("EAM-ADP-Quadrupole")),
  # ---- [Table-Form]
  ("table_only_x", "*", tf_only("y")),
  ("table_only_y", "*", tf_only("x")),
  ("table_xy_and_x", "*", tf_set([("xy", "0 1 1 2 2 3 3 4")])),
  ("table_odd_xy_count", "*", tf_set([("xy", "0 1 1 2 2 3 3 4 5")], drop=("x", "y"))),
  ("table_length_mismatch", "*", tf_set([("y", "1 2 3 4 5")])),
  ("table_nonnumeric", "*", tf_set([("y", "1 2 three 4 5 6")])),
  ("table_fewer_than_four_points", "*", tf_set([("x", "0 1 2"), ("y", "1 2 3")])),
  ("table_nonincreasing_x", "*", tf_set([("x", "0 1 1 2 3 4"), ("y", "1 2 3 4 5 6")])),
  ("table_decreasing_x", "*", tf_set([("x", "5 4 3 2 1 0"), ("y", "1 2 3 4 5 6")])),
  ("table_unknown_interpolation", "*", tf_set([("interpolation", "linear")])),
  ("table_no_data", "*", tf_set([], drop=("x", "y"))),
  # a second table form with exactly the data of the first (valid) one but something wrong with it: what was learnt
  # about the first must not be reused for the second
  ("second_table_same_data_unknown_interpolation", "*", lambda it, info, rng: (it.append(["Table-Form:tbl2", [["interpolation", rng.choice(["linear", "quadratic", "spline"])]] + [list(kv) for kv in bm.sec(it, "Table-Form:tbl")[1] if kv[0] in ("x", "y")]]), it)[1]),
  ("second_table_same_data_given_twice", "*", lambda it, info, rng: (it.append(["Table-Form:tbl2", [list(kv) for kv in bm.sec(it, "Table-Form:tbl")[1] if kv[0] in ("x", "y")] + [["xy", "0 1 1 2 2 3 3 4"]]]), it)[1]),
  ("table_empty_x_and_y", "*", tf_set([("x", ""), ("y", "")])),
  ("table_empty_xy", "*", tf_set([("xy", "")], drop=("x", "y"))),
  ("table_nan_in_data", "*", tf_set([("y", "1 2 nan 4 5 6")])),
  ("table_inf_in_data", "*", tf_set([("y", "1 2 3 -inf 5 6")])),
  ("table_nan_in_x", "*", tf_set([("x", "0 1 2 nan 4 5"), ("y", "1 2 3 4 5 6")])),
  # ---- [Potential-Form]
  ("form_signature_without_parentheses", "*", op_key("Potential-Form", lambda k, v: k.startswith("other"), lambda k, rng: "other r k")),
  ("form_signature_unterminated", "*", op_key("Potential-Form", lambda k, v: k.startswith("other"), lambda k, rng: "other(r, k")),
  ("form_empty_parameter_name", "*", op_key("Potential-Form", lambda k, v: k.startswith("cf"), lambda k, rng: "cf(r, , rho)")),
  ("form_parameters_differ_only_in_case", "*", lambda it, info, rng: (lambda kv: (kv.__setitem__(0, "cf(r, A, a)"), kv.__setitem__(1, kv[1].replace("rho", "a")), it)[2])(entry(it, lambda k, v: k.startswith("cf"), "Potential-Form"))),
  ("form_parameter_repeated", "*", lambda it, info, rng: (lambda kv: (kv.__setitem__(0, "cf(r, A, A)"), kv.__setitem__(1, kv[1].replace("rho", "A")), it)[2])(entry(it, lambda k, v: k.startswith("cf"), "Potential-Form"))),
  ("form_named_like_parameter_of_another_form", "*", lambda it, info, rng: (bm.sec(it, "Potential-Form")[1].append(["rho(r)", "2.0*r"]), it)[1]),
  ("table_form_named_like_parameter_of_a_form", "*", lambda it, info, rng: (it.append(["Table-Form:rho", [["x", "0 1 2 3 4 10"], ["y", "1 2 3 4 5 6"]]]), it)[1]),
  ("form_parameter_named_like_exprtk_constant", "*", lambda it, info, rng: (lambda kv, nm: (kv.__setitem__(0, "cf(r, %s, rho)" % nm), kv.__setitem__(1, re.sub(r"\bA\b", nm, kv[1])), it)[2])(entry(it, lambda k, v: k.startswith("cf"), "Potential-Form"), rng.choice(["epsilon", "pi", "inf"]))),
  ("form_parameter_named_like_exprtk_reserved_word", "*", lambda it, info, rng: (lambda kv, nm: (kv.__setitem__(0, "cf(r, %s, rho)" % nm), kv.__setitem__(1, re.sub(r"\bA\b", nm, kv[1])), it)[2])(entry(it, lambda k, v: k.startswith("cf"), "Potential-Form"), rng.choice(["min", "max", "mod", "not", "in", "if", "_a"]))),
  ("form_signature_trailing_junk", "*", op_key("Potential-Form", lambda k, v: k.startswith("other"), lambda k, rng: k + rng.choice(["junk", " x", ")"]))),
  ("formula_pymath_wrong_arity", "*", op_value("Potential-Form", lambda k, v: k.startswith("other"), lambda v, rng: rng.choice(["k + pymath.log(r + 1, 2, 3)", "k + pymath.exp()", "k + pymath.pow(r)"]))),
  ("forms_mutually_recursive", "*", lambda it, info, rng: (bm.sec(it, "Potential-Form")[1].extend([["ra(r)", "rb(r) + 1"], ["rb(r)", "ra(r) * 2"]]), bm.sec(it, "Pair")[1][-1].__setitem__(1, "ra"), it)[2]),
  ("form_parameter_named_like_exprtk_literal_in_other_case", "*", lambda it, info, rng: (lambda kv, nm: (kv.__setitem__(0, "cf(r, %s, rho)" % nm), kv.__setitem__(1, re.sub(r"\bA\b", nm, kv[1])), it)[2])(entry(it, lambda k, v: k.startswith("cf"), "Potential-Form"), rng.choice(["True", "FALSE", "Null", "TRUE"]))),
  ("unused_form_with_unparsable_formula", "*", lambda it, info, rng: (bm.sec(it, "Potential-Form")[1].append(["unusedf(r, q)", rng.choice(["q */ r", "q/(r+1", "q + nosuchsymbol*r", "q + other(r"])]), it)[1]),
  ("form_used_only_beyond_cutoff_with_unparsable_formula", "*", lambda it, info, rng: (bm.sec(it, "Potential-Form")[1].append(["farf(r, q)", "q */ r"]), bm.sec(it, "Pair")[1][0].__setitem__(1, bm.sec(it, "Pair")[1][0][1] + " >=500.0 farf 1.0") if ">" not in bm.sec(it, "Pair")[1][0][1] and not bm.sec(it, "Pair")[1][0][1].startswith(("sum(", "spline(", "trans(")) else None, it)[2]),
  ("non_ascii_form_label", "*", lambda it, info, rng: (bm.sec(it, "Potential-Form")[1].append([rng.choice(["g\u00e9(r, q)", "\u03c6(r, q)"]), "q*r"]), it)[1]),
  ("non_ascii_symbol_in_formula", "*", op_value("Potential-Form", lambda k, v: k.startswith("other"), lambda v, rng: v + rng.choice([" + \u03c0", " * \u00e5"]))),
  ("non_ascii_table_form_name", "*", lambda it, info, rng: (it.append(["Table-Form:tab\u00e9", [["x", "0 1 2 3 4 10"], ["y", "1 2 3 4 5 6"]]]), it)[1]),
  ("table_form_section_without_name", "*", lambda it, info, rng: (it.append([rng.choice(["Table-Form", "Table-Form:", "Table-Form :  "]), [["x", "0 1 2 3 4 10"], ["y", "1 2 3 4 5 6"]]]), it)[1]),
  ("form_label_not_identifier", "*", op_key("Potential-Form", lambda k, v: k.startswith("other"), lambda k, rng: "2other(r, k)")),
  ("formula_undefined_variable", "*", op_value("Potential-Form", lambda k, v: k.startswith("cf"), lambda v, rng: v.replace("rho", "sigma", 1))),
  ("formula_undefined_function", "*", op_value("Potential-Form", lambda k, v: k.startswith("cf"), lambda v, rng: v.replace("other(", "another("))),
  ("formula_wrong_arity_in_nested_call", "*", op_value("Potential-Form", lambda k, v: k.startswith("cf"), lambda v, rng: re.sub(r"other\(r, \S+\)", "other(r)", v))),
  # a built-in / pymath function that has ALREADY been called correctly earlier in the same tabulation (as.morse by the
  # A-A and B-C entries, pymath.tanh by other()) is called with the wrong number of arguments by the last pair entry
  ("formula_wrong_arity_builtin_after_correct_use_too_few", "*", late_wrong_call("as.morse(r, k)")),
  ("formula_wrong_arity_builtin_after_correct_use_too_many", "*", late_wrong_call("as.morse(r, k, 2.0, 0.5, 9.9)")),
  ("formula_wrong_arity_pymath_after_correct_use", "*", late_wrong_call("k + pymath.tanh(0.1*r, k)")),
  ("formula_wrong_arity_custom_form_after_correct_use", "*", late_wrong_call("other(r, k, 2.0)")),
  # exprtk also groups with [] and {}: malformed uses of those (the error text then quotes a brace)
  ("formula_unbalanced_curly_bracket", "*", op_value("Potential-Form", lambda k, v: k.startswith("other"), lambda v, rng: rng.choice(["k/{r+1", "k/{r+1}}", "{k +* r}", "k*exp{0 - r}", "k/[r+1", "k/(r+1}"]))),
  ("formula_wrong_arity_in_nested_call_with_curly_brackets", "*", op_value("Potential-Form", lambda k, v: k.startswith("cf"), lambda v, rng: "{A*exp(-r/rho)} + other(r)")),
  ("formula_unparsable", "*", op_value("Potential-Form", lambda k, v: k.startswith("other"), lambda v, rng: rng.choice(["k/(r+1", "k */ r", "k +* r", "k/(r+1))"]))),
  ("formula_unknown_pymath_function", "*", op_value("Potential-Form", lambda k, v: k.startswith("other"), lambda v, rng: v.replace("pymath.tanh", "pymath.nosuch"))),
  ("formula_empty", "*", op_value("Potential-Form", lambda k, v: k.startswith("other"), lambda v, rng: "")),
  # ---- placeholders
  ("unresolvable_placeholder", "*", in_any_section(lambda v, rng: " ".join(v.split()[:-1] + ["${missing}"]))),
  # ${SECTION:KEY} where SECTION exists but has no such key, while [Variables] happens to hold an entry of that name: the
  # placeholder names the section, so it is unresolvable (not an invitation to look the name up elsewhere)
  ("cross_reference_to_a_key_only_variables_holds", "*", lambda it, info, rng: (
      (bm.sec(it, "Variables")[1] if bm.sec(it, "Variables") else (it.insert(0, ["Variables", []]) or bm.sec(it, "Variables")[1])).append(["zz9key", "1.5"]),
      in_any_section(lambda v, rng_: " ".join(v.split()[:-1] + ["${%s:zz9key}" % rng_.choice(["Tabulation", "Pair", "Tabulation"])]))(it, info, rng))[1]),
  ("unresolvable_cross_reference", "*", in_any_section(lambda v, rng: " ".join(v.split()[:-1] + ["${Species:Nope.mass}"]))),
  ("cross_reference_to_missing_section", "*", in_any_section(lambda v, rng: " ".join(v.split()[:-1] + ["${NoSuchSection:key}"]))),
  ("cross_reference_to_undefined_variable", "*", in_any_section(lambda v, rng: " ".join(v.split()[:-1] + ["${Variables:undefined_name}"]))),
  ("placeholder_with_two_colons", "*", in_any_section(lambda v, rng: " ".join(v.split()[:-1] + ["${a:b:c}"]))),
  ("self_referencing_variable", "*", lambda it, info, rng: (it.insert(0, ["Variables", [["A", "${A}"]]]), in_any_section(lambda v, r2: " ".join(v.split()[:-1] + ["${A}"]))(it, info, rng))[1]),
  ("mutually_recursive_variables", "*", lambda it, info, rng: (it.insert(0, ["Variables", [["A", "${B}"], ["B", "${A}"]]]), in_any_section(lambda v, r2: " ".join(v.split()[:-1] + ["${A}"]))(it, info, rng))[1]),
  ("bad_placeholder_syntax", "*", in_any_section(lambda v, rng: " ".join(v.split()[:-1] + ["${unterminated"]))),
  ("bare_dollar", "*", in_any_section(lambda v, rng: " ".join(v.split()[:-1] + ["$5"]))),
  ("placeholder_in_tabulation_unresolvable", "*", lambda it, info, rng: set_tab(it, "cutoff", "${rcut}")),
  # ---- not an INI file
  ("file_not_utf8_latin1_comment", "*", raw(lambda t, rng: ("# cutoff in \u00c5ngstr\u00f6m\n" + t).encode("latin-1"))),
  ("file_not_utf8_latin1_label", "*", raw(lambda t, rng: t.replace("[Pair]", "[Pair]\n\u00c5-\u00c5 : as.constant 1.0").encode("latin-1"))),
  ("file_not_utf8_binary", "*", raw(lambda t, rng: b"PK\x03\x04\x14\x00\x06\x00\x08\x00\x00\x00!\x00\xff\xfe\x9c\xa8" + t.encode("utf8"))),
  ("text_without_section_header", "*", raw(lambda t, rng: "nr : 10\n" + t)),
  ("unterminated_section_header", "*", raw(lambda t, rng: t.replace("[Pair]", "[Pair", 1))),
  ("line_without_delimiter", "*", raw(lambda t, rng: t.replace("[Pair]\n", "[Pair]\nthis line has no delimiter\n", 1))),
  ("duplicate_section_header", "*", raw(lambda t, rng: t + "\n[Tabulation]\nnr : 7\n")),
  ("binary_garbage", "*", raw(lambda t, rng: "\x00\x01\x02 not a potable file \xff\n")),
]


def gen_cases(rng, tier):
  cases = []
  reps = 1 if tier == "quick" else 8
  for rep in range(reps):
    for ti, target in enumerate(ALL_TARGETS):
      seed = rng.randrange(1 << 30)
      kind = bm.kind_of(target)
      cases.append({"kind": "valid", "target": target, "seed": seed, "route": "main" if ti % 2 else "inproc"})
      for oi, (name, kinds, fn) in enumerate(OPS):
        if kinds == "dlpoly":
          if target not in ("DLPOLY", "DL_POLY"):
            continue
          cases.append({"kind": "mutant", "op": name, "target": target, "seed": seed, "route": "main" if rep % 2 else "inproc"})
          continue
        if kinds != "*" and kind not in kinds.split():
          continue
        # quick: every operator against every kind (one target per kind, rotating); thorough: every target
        if tier == "quick" and (oi + ti) % 3 != 0 and target not in ("LAMMPS", "setfl", "setfl_fs", "eam_adp"):
          continue
        route = "main" if (oi + ti + rep) % 5 == 0 else "inproc"
        cases.append({"kind": "mutant", "op": name, "target": target, "seed": seed, "route": route})
  # the model read from standard input ('potable - OUT'): a valid model, and the operators that damage the file as a
  # whole (bytes that are not UTF-8, no INI text) - under the C locale and under a UTF-8 locale
  for ti, target in enumerate(["LAMMPS", "setfl", "GULP", "DL_POLY_EAM_fs"]):
    seed = rng.randrange(1 << 30)
    for loc in ("C", "C.UTF-8"):
      cases.append({"kind": "valid", "target": target, "seed": seed, "route": "stdin", "locale": loc})
      for name in ("file_not_utf8_latin1_comment", "file_not_utf8_binary", "file_not_utf8_latin1_label", "unknown_target", "empty_definition"):
        if any(o[0] == name for o in OPS):
          cases.append({"kind": "mutant", "op": name, "target": target, "seed": seed, "route": "stdin", "locale": loc})
  # a species that is no chemical element (a placeholder 'Xx') and therefore brings its own [Species] data, some of it ZERO
  # (atomic number 0, mass 0): a value given is a value given whatever its truth value (seeded change C16r10 skipped them)
  for ti, target in enumerate([t for t in ALL_TARGETS if bm.kind_of(t) in ("eam", "adp")]):
    cases.append({"kind": "valid", "target": target, "seed": rng.randrange(1 << 30), "route": "main" if ti % 3 == 0 else "inproc", "placeholder_zero": 1 + ti % 2})
  # option values exactly as the reference manual lists them
  for target in ["DL_POLY", "DLPOLY", "DL_POLY_EAM_fs", "DL_POLY_EAM", "eam_adp", "excel", "excel_eam", "excel_eam_fs", "GULP", "LAMMPS_eam_alloy", "setfl", "LAMMPS", "setfl_fs"]:
    cases.append({"kind": "valid", "target": target, "seed": rng.randrange(1 << 30), "route": "main", "documented": True})
    cases.append({"kind": "valid", "target": target, "seed": rng.randrange(1 << 30), "route": "inproc", "documented": True})
  return cases


def classify_inproc(text):
  from atsim.potentials.config._common import ConfigurationException
  fp = None
  try:
    tab = routes.read_config(text)
    fp = routes.new_fp(tab.target)
    tab.write(fp)
    return {"outcome": "accepted", "bytes": len(fp.getvalue())}
  except ConfigurationException as e:
    return {"outcome": "config_error", "msg": str(e)[:200], "bytes": len(fp.getvalue()) if fp is not None else 0}
  except Exception as e:
    et, fn = exc_sig(e)
    return {"outcome": "internal", "exc": et, "func": fn, "msg": str(e)[:200], "bytes": len(fp.getvalue()) if fp is not None else 0}


def classify_main(text):
  res = routes.potable_main(["@IN", "@OUT"], text)
  nbytes = len(res["data"]) if res["exists"] and res["data"] else 0
  if res["rc"] == 0:
    return {"outcome": "accepted", "bytes": nbytes}
  if res["rc"] == 2 and "configuration error - " in res["err"]:
    return {"outcome": "config_error", "msg": res["err"].strip().split("\n")[-1][:200], "bytes": nbytes}
  if res.get("exc") is not None:
    et, fn = exc_sig(res["exc"])
  else:
    et, fn = "exit%s" % res["rc"], "?"
  return {"outcome": "internal", "exc": et, "func": fn, "msg": res["err"][-200:], "bytes": nbytes}


def classify_stdin(text, loc):
  raw_ = text if isinstance(text, bytes) else text.encode("utf8")
  res = routes.run_potable(["-", "@OUT"], None, stdin=raw_, extra_env={"LC_ALL": loc, "LANG": loc, "PYTHONUTF8": "0", "PYTHONIOENCODING": ""})
  nbytes = len(res["data"]) if res["exists"] and res["data"] else 0
  if res["rc"] == 0:
    return {"outcome": "accepted", "bytes": nbytes}
  if res["rc"] == 2 and "configuration error - " in res["err"]:
    return {"outcome": "config_error", "msg": res["err"].strip().split("\n")[-1][:200], "bytes": nbytes}
  last = [l for l in res["err"].strip().split("\n") if l.strip()][-1:] or ["?"]
  return {"outcome": "internal", "exc": last[0].split(":")[0][:40], "func": "potable(stdin)", "msg": res["err"][-200:], "bytes": nbytes}


def run_case(case, ctx):
  rng = random.Random(case["seed"])
  target = case["target"]
  base_target = "lammps_eam_alloy" if target == "LAMMPS_eam_alloy" else target
  info = bm.base_items(rng, base_target)
  items = info["items"]
  if target == "LAMMPS_eam_alloy":
    set_tab(items, "target", target)
  ctx.cls("target:" + target)
  ctx.cls("route:" + case["route"])
  classify = classify_main if case["route"] == "main" else classify_inproc
  if case["route"] == "stdin":
    classify = lambda t_: classify_stdin(t_, case["locale"])
    ctx.cls("stdin_locale:" + case["locale"])
  if case["route"] == "main":
    ctx.count("cli_outcomes")
  if case["kind"] == "valid":
    if case.get("placeholder_zero"):
      bm.sec(items, "EAM-Embed")[1].append(["Xx", "as.polynomial 0.0 -1.0 0.05"])
      bm.sec(items, "EAM-Density")[1].append(["Xx", "as.bornmayer 5.0 1.0"])
      bm.sec(items, "Pair")[1].append(["Xx-Xx", "as.bornmayer 800.0 0.3"])
      bm.sec(items, "Species")[1].extend([["Xx.atomic_number", "0"], ["Xx.atomic_mass", "0.0" if case["placeholder_zero"] == 2 else "12.5"],
                                          ["Xx.lattice_constant", "4.05"], ["Xx.lattice_type", "fcc"]])
      ctx.cls("placeholder_species_with_zero_data")
    r = classify(bm.items_text(items))
    ctx.count("valid_models_judged")
    ctx.nontrivial(True)
    if r["outcome"] != "accepted":
      ctx.violation("valid_model_refused", "valid model for target %s refused: %s %s %s" % (target, r["outcome"], r.get("exc", ""), r.get("msg", "")),
                    what="valid_model_refused", target=target, outcome=r["outcome"], exc=r.get("exc", "-"), func=r.get("func", "-"))
    elif r["bytes"] == 0:
      ctx.violation("valid_model_empty_output", "valid model for %s accepted but nothing written" % target, what="valid_model_empty_output")
    return
  name = case["op"]
  fn = [o for o in OPS if o[0] == name][0][2]
  mrng = random.Random(case["seed"] ^ 0x5bd1e995)
  mutated = fn(copy.deepcopy(items), info, mrng)
  if mutated is None:
    ctx.count("operator_not_applicable")
    return
  text = mutated if isinstance(mutated, (str, bytes)) else bm.items_text(mutated)
  if text == bm.items_text(items):
    ctx.count("operator_made_no_change")
    return
  ctx.cls("op:" + name)
  r = classify(text)
  ctx.count("mutants_judged")
  ctx.nontrivial(True)
  if r["outcome"] == "config_error":
    if r["bytes"] != 0:
      ctx.violation("config_error_left_output", "operator %s: configuration error but %d bytes were written" % (name, r["bytes"]), what="config_error_left_output", op=name)
    ctx.cls("refused:" + name)
    return
  if r["outcome"] == "accepted":
    ctx.violation("malformed_accepted", "operator %s (target %s, %s): malformed model accepted and a table of %d bytes written" % (name, target, case["route"], r["bytes"]),
                  what="malformed_accepted", op=name)
  else:
    ctx.violation("internal_error", "operator %s (target %s, %s): %s in %s: %s" % (name, target, case["route"], r["exc"], r["func"], r["msg"]),
                  what="internal_error", op=name, exc=r["exc"], func=r["func"])
