"""C18 - tabulated input is reproduced at its data points and is zero outside its range (DESIGN.md section 4, C18)."""
import io

import emit
import math
import random

import monitors
import routes
import spec
from harness import exc_sig
from spec import fnum

PROPERTY_ID = "C18"
LEVEL = "exploration"
RULE = ("(table) 4-200 strictly increasing, unevenly spaced x and finite y of mixed scale, given as x/y lists and as xy pairs, built through potable "
        "[Table-Form] and through Cubic_Spline_Table_Form; query points on every knot, between knots, on both ends and outside. (reader) files for "
        "TableReader with comments, blank lines, shuffled rows, LF / CRLF, leading/trailing spaces, with and without a final newline. (plot) plot, "
        "plotToFile, plotPotentialObject(ToFile) over positive, negative, reversed and degenerate ranges with 1..400 steps. Non-trivial: a table "
        "with >= 4 points whose y values are not all equal / a file with >= 2 rows / a plot with >= 2 steps; distinct = canonical JSON of the case.")
ASSUMPTIONS = ["derivatives of the interpolant are compared with an independently built scipy spline of the same data and with Richardson-extrapolated differences of the callable itself",
               "plot rows are compared on the parsed repr() floats, exactly"]
ANCHORS = ["tableforms.py:Cubic_Spline_Table_Form.__call__", "tableforms.py:Cubic_Spline_Table_Form.deriv", "_config_parser.py:_TableFormSection._parse_xy",
           "_config_parser.py:_TableFormSection._parse_x_y", "_tablereaders.py:TableReaderBase.getValue", "_tablereaders.py:DatReader._populate", "__init__.py:plotToFile",
           "__init__.py:plotPotentialObjectToFile"]
MIN_NONTRIVIAL = {"quick": 90, "thorough": 1200}
MIN_COUNTERS = {"knot_points": 1500, "reader_points": 1500, "plot_rows": 2000, "derivative_points": 500}
TECHNIQUE = "runtime monitoring: interpolation / zero-outside / derivative monitors on the real table-form and TableReader callables; file-format variants; plot rows re-read"
LEVEL_TEXT = ("Exploration: table forms, the legacy TableReader and the plot helpers are driven with seeded data; monitors check that every data point "
              "is reproduced, that values outside the range are exactly 0, that offered derivatives are those of the interpolant, that xy and x/y "
              "input give bit-identical functions, that the reader is invariant under comments, blank lines, row order, line endings and a missing "
              "final newline, and that plot files hold exactly 'steps' rows on the stated grid with y = f(x).")
LEVEL_NOTE = "Trusted: scipy's InterpolatedUnivariateSpline for the independent derivative reference."
DESIGN_REF = "DESIGN.md section 4, C18"


def gen_data(rng, n=None):
  n = n or rng.choice([4, 5, 6, 8, 12, 25, 60, 200])
  x = rng.choice([0.0, 0.0, 0.3, -2.0])
  xs = []
  for _ in range(n):
    xs.append(round(x, 6))
    x += rng.choice([0.01, 0.1, 0.5, 1.0]) * rng.uniform(0.3, 3.0) + 1e-5
  sc = rng.choice([1.0, 1e-3, 1e3, 50.0])
  ys = [round(sc * (math.sin(0.7 * v) + rng.uniform(-0.3, 0.3) + 0.05 * v), 8) for v in xs]
  return xs, ys


def gen_cases(rng, tier):
  n = 60 if tier == "quick" else 800
  cases = []
  for i in range(n):
    xs, ys = gen_data(rng)
    cases.append({"kind": "table", "x": xs, "y": ys, "seed": rng.randrange(1 << 30)})
  # ordinary data closed by a far-away sentinel point ("1e200 0"): the spline fit overflows for spans beyond ~1e154
  for k in range(6 if tier == "quick" else 30):
    xs, ys = gen_data(rng, rng.choice([4, 6, 9]))
    xs = list(xs) + [10.0 ** rng.choice([155, 160, 200, 250, 300])]
    ys = list(ys) + [0.0]
    cases.append({"kind": "table", "x": xs, "y": ys, "seed": rng.randrange(1 << 30), "huge_span": 1})
  for i in range(n):
    xs, ys = gen_data(rng, rng.choice([2, 3, 4, 7, 20, 100]))
    if i % 9 == 0:
      ys = [float(int(v * 10) % 7) for v in ys]      # short tokens: single-digit last value
    cases.append({"kind": "reader", "x": xs, "y": ys, "seed": rng.randrange(1 << 30), "final_newline": bool(i % 2), "crlf": i % 5 == 0,
                  "shuffle": i % 3 == 0, "comments": i % 4 != 3})
  for i in range(n):
    lo = rng.choice([0.0, 0.5, -3.0, 2.0, 10.0])
    hi = rng.choice([lo + rng.uniform(0.1, 12.0), lo - rng.uniform(0.1, 5.0) if i % 7 == 0 else lo + 1.0, lo + 1e-3])
    cases.append({"kind": "plot", "lo": lo, "hi": round(hi, 4), "steps": rng.choice([1, 2, 3, 10, 37, 100, 400]), "which": i % 4, "seed": rng.randrange(1 << 30)})
    if i % 6 == 0:
      # ranges in which several rows fall on the SAME double: a zero-width range, a range narrower than the spacing of
      # doubles there - still exactly 'steps' rows, each with f at its own (repeated) x
      lo2, hi2 = rng.choice([(2.5, 2.5), (0.0, 0.0), (1e15, 1e15 + 1.0), (1e16, 1e16 + 4.0), (-3.0, -3.0), (1.0, 1.0 + 2.0 ** -50)])
      cases.append({"kind": "plot", "lo": lo2, "hi": hi2, "steps": rng.choice([2, 3, 10, 40]), "which": (i // 6) % 4, "seed": rng.randrange(1 << 30), "coinciding_rows": 1})
  # every small row count for the reader (2..40) and a few large ones, in all end-of-file / line-ending combinations
  for k, nrows in enumerate(list(range(2, 41)) + [63, 64, 65, 255, 256, 257, 1000, 1024, 4097]):
    xs, ys = gen_data(rng, nrows)
    cases.append({"kind": "reader", "x": xs, "y": ys, "seed": rng.randrange(1 << 30), "final_newline": bool(k % 2), "crlf": k % 4 >= 2,
                  "shuffle": k % 3 == 0, "comments": k % 5 == 0})
  # row orders a file can plausibly arrive in other than sorted or fully shuffled: sorted as TEXT (what `sort` without -n
  # leaves: 0.5 1.0 10.0 2.0 25.0 4.0), descending, one adjacent pair swapped, the last row first, the first row last
  for k in range(15 if tier == "quick" else 150):
    nrows = rng.choice([4, 6, 9, 15, 40])
    xs = sorted(set(round(rng.choice([rng.uniform(0.1, 9.9), rng.uniform(10.0, 99.0), rng.uniform(100.0, 500.0)]), rng.choice([1, 2])) for _ in range(nrows * 2)))[:max(3, nrows)]
    xs = sorted(rng.sample(xs, min(len(xs), nrows))) if len(xs) > nrows else xs
    ys = [round(rng.uniform(-5.0, 5.0), 4) for _ in xs]
    cases.append({"kind": "reader", "x": xs, "y": ys, "seed": rng.randrange(1 << 30), "final_newline": bool(k % 2), "crlf": False, "shuffle": False,
                  "order": ["text", "descending", "one_swap", "last_first", "first_last"][k % 5], "comments": k % 4 == 0, "spellings": False})
  # abscissae far from the origin on a fine step (x = 1e6 + i*1e-3: 'm*x + c' loses what the step resolves), y values next
  # to the largest double (an intercept can overflow although the line between the two rows stays finite)
  for k in range(12 if tier == "quick" else 120):
    nrows = rng.choice([3, 5, 9])
    if k % 3 < 2:
      x0, h = rng.choice([(1e6, 1e-3), (1e4, 1e-3), (-1e5, 1e-2), (1e7, 1e-2), (5e5, 1e-4)])
      xs = [x0 + i * h for i in range(nrows)]
      ys = [round(rng.uniform(0.5, 5.0), 4) for _ in xs]
      mag = "x_offset_%g_step_%g" % (x0, h)
    else:
      xs = [float(i + 2) for i in range(nrows)]
      ys = [rng.choice([1e308, -1e308, 1.5e308, 0.0, 3e307, -8e307]) for _ in xs]
      mag = "y_near_largest_double"
    cases.append({"kind": "reader", "x": xs, "y": ys, "seed": rng.randrange(1 << 30), "final_newline": bool(k % 2), "crlf": False, "shuffle": k % 4 == 0,
                  "comments": False, "spellings": False, "magnitude": mag})
  # flat and nearly flat stretches (equal neighbouring y values: the interpolant is that value, not one ulp off it)
  for k in range(8 if tier == "quick" else 60):
    nrows = rng.choice([2, 3, 5])
    xs = sorted(set(round(rng.uniform(-3.0, 9.0), 3) for _ in range(nrows + 2)))[:nrows]
    if len(xs) < 2:
      xs = [0.0, 1.0]
    c_ = rng.choice([0.3, 0.1, 1.0 / 3.0, -0.7, 1e-3, 123.456, 0.1 + 0.2])
    ys = [c_ if rng.random() < 0.7 else c_ * (1 + 2.0 ** -52) for _ in xs]
    cases.append({"kind": "reader", "x": xs, "y": ys, "seed": rng.randrange(1 << 30), "final_newline": True, "crlf": False, "shuffle": False,
                  "comments": False, "spellings": False, "magnitude": "flat_segments", "dense_queries": 1})
  # a row whose x is not a number (nan) or not finite among ordinary rows: the file is refused, or the ordinary rows are
  # still found (a nan in a sort leaves the rows in no order at all)
  for k in range(6 if tier == "quick" else 40):
    xs, ys = gen_data(rng, rng.choice([4, 6, 9]))
    cases.append({"kind": "reader_nonfinite_x", "x": xs, "y": ys, "bad": rng.choice(["nan", "NaN", "-nan", "inf", "-inf"]), "at": rng.randrange(len(xs) + 1), "seed": rng.randrange(1 << 30)})
  # two table forms in one file whose data differ ONLY by -1 versus -2 (hash(-1.0) == hash(-2.0) in CPython): each passes
  # through its own points, whatever was fitted just before it
  for k in range(6 if tier == "quick" else 40):
    xs, ys = gen_data(rng, rng.choice([4, 6, 9]))
    at = rng.randrange(len(xs))
    cases.append({"kind": "table_hashpair", "x": xs, "y": ys, "at": at, "in_x": k % 3 == 2, "order": k % 2, "seed": rng.randrange(1 << 30)})
  # files without a single data row (empty, comments and blank lines only): nothing is tabulated, so every x is outside
  for k in range(4 if tier == "quick" else 12):
    cases.append({"kind": "reader_empty", "text": ["", "# nothing here\n", "\n\n   \n", "# a\n\n# b", "#\r\n\r\n"][k % 5], "seed": rng.randrange(1 << 30)})
  # data of extreme magnitude (x and y scaled by powers of ten up to 1e+-160; each harmless alone): the interpolant between
  # two rows is still the straight line between them
  for k, (ex, ey) in enumerate([(160, 160), (-170, -170), (156, 158), (-166, -168), (150, 150), (160, 140), (-150, -150), (-160, -140), (150, -150), (-150, 150), (100, 200), (-100, -200), (0, 300), (0, -300)]):
    xs, ys = gen_data(rng, rng.choice([3, 5, 8]))
    xs = [x * 10.0 ** ex for x in xs]
    ys = [y * 10.0 ** ey for y in ys]
    cases.append({"kind": "reader", "x": xs, "y": ys, "seed": rng.randrange(1 << 30), "final_newline": bool(k % 2), "crlf": False, "shuffle": k % 3 == 0,
                  "comments": False, "spellings": False, "magnitude": "x1e%d_y1e%d" % (ex, ey)})
  # a sweep over step counts (everything small, m*10^k, 2^k, 5000 m, each with neighbours), all four plot entry points
  szs = [z for z in spec.edge_sizes(tier, lo=1) if z <= (5001 if tier == "quick" else 40001)]
  for k, z in enumerate(szs):
    cases.append({"kind": "plot", "lo": [0.0, 0.5, -2.0][k % 3], "hi": [8.0, 0.5 + z * 0.25, 6.0][k % 3], "steps": z, "which": k % 4, "seed": rng.randrange(1 << 30), "sweep": True})
  return cases


def richardson(f, x, h):
  d1 = (f(x + h) - f(x - h)) / (2 * h)
  d2 = (f(x + h / 2) - f(x - h / 2)) / h
  return (4 * d2 - d1) / 3


def run_table(case, ctx):
  from atsim.potentials.tableforms import Cubic_Spline_Table_Form
  from scipy.interpolate import InterpolatedUnivariateSpline
  xs, ys = case["x"], case["y"]
  rng = random.Random(case["seed"])
  scale = max(abs(v) for v in ys) or 1.0
  txt_xy = "\n    ".join("%s %s" % (fnum(a), fnum(b)) for a, b in zip(xs, ys))
  txt_x = " ".join(fnum(a) for a in xs)
  txt_y = " ".join(fnum(b) for b in ys)
  head = "[Tabulation]\ntarget : LAMMPS\nnr : 5\ncutoff : 2.0\n\n[Pair]\nA-B : >=%s tbl\n\n[Table-Form:tbl]\n" % fnum(min(xs) - 100.0)
  # the xy list is a flat sequence of numbers: how it is wrapped over lines must not matter
  pairs = ["%s %s" % (fnum(a), fnum(b)) for a, b in zip(xs, ys)]
  per = rng.choice([2, 3, 5])
  wrapped = "\n    ".join("  ".join(pairs[k:k + per]) for k in range(0, len(pairs), per))
  ragged = []
  k = 0
  toks = " ".join(pairs).split()
  while k < len(toks):
    n_ = rng.choice([1, 2, 3, 4, 5])
    ragged.append(" ".join(toks[k:k + n_]))
    k += n_
  layouts = {"one pair per line": txt_xy, "all on one line": " ".join(pairs), "%d pairs per line" % per: wrapped, "ragged lines": "\n    ".join(ragged)}
  try:
    f_api = Cubic_Spline_Table_Form(list(xs), list(ys))
    f_xy = routes.read_config(head + "xy : " + txt_xy + "\n").potentials[0].potentialFunction
    for lname, ltxt in layouts.items():
      try:
        g = routes.read_config(head + "xy : " + ltxt + "\n").potentials[0].potentialFunction
      except Exception as e:
        ctx.violation("xy_layout", "xy data wrapped as '%s' is refused: %s %s" % (lname, type(e).__name__, e), what="xy_layout")
        return
      ctx.count("xy_layouts")
      for q in (xs[0], xs[len(xs) // 2], 0.5 * (xs[0] + xs[1]), 0.5 * (xs[-2] + xs[-1]), xs[-1]):
        if g(q) != f_xy(q):
          ctx.violation("xy_layout", "xy data wrapped as '%s' gives %r at %r, one pair per line gives %r" % (lname, g(q), q, f_xy(q)), what="xy_layout")
          return
    f_x_y = routes.read_config(head + "x : " + txt_x + "\ny : " + txt_y + "\n").potentials[0].potentialFunction
  except Exception as e:
    et, fn = exc_sig(e)
    if case.get("huge_span") and et in ("ValueError", "Table_Form_Exception", "ConfigurationException", "ConfigParserException"):
      # an abscissa span beyond ~1e154 cannot be interpolated in doubles (the spline fit squares it): refusing such data
      # is inside the property's domain rule; tabulating nan for it is not
      ctx.count("huge_span_refused")
      ctx.nontrivial(True)
      return
    ctx.violation("exception", "table form could not be built: %s %s" % (et, e), what="exception", exc=et, func=fn)
    return
  if case.get("huge_span"):
    ctx.cls("table_x_span_beyond_1e154")
    for nm, f in (("Cubic_Spline_Table_Form", f_api), ("potable xy", f_xy), ("potable x/y", f_x_y)):
      for a, b in zip(xs, ys):
        v = f(a)
        ctx.count("knot_points")
        if not (abs(v - b) <= 1e-6 * scale):
          ctx.violation("data_point", "%s: f(%r) = %r, tabulated y = %r (abscissae %r ... %r)" % (nm, a, v, b, xs[0], xs[-1]), what="data_point", mech="huge_span")
          return
    ctx.nontrivial(True)
    return
  ref = InterpolatedUnivariateSpline(xs, ys, k=3)
  d1r, d2r = ref.derivative(1), ref.derivative(2)
  funcs = (("Cubic_Spline_Table_Form", f_api), ("potable xy", f_xy), ("potable x/y", f_x_y))
  # data points
  for a, b in zip(xs, ys):
    for nm, f in funcs:
      v = f(a)
      ctx.count("knot_points")
      if not (abs(v - b) <= 1e-9 * scale):      # (written so that nan fails)
        ctx.violation("data_point", "%s: f(%r) = %r, tabulated y = %r" % (nm, a, v, b), what="data_point")
        return
  # outside the range: exactly zero (value and derivatives)
  span = xs[-1] - xs[0]
  for q in (xs[0] - 1e-9, xs[0] - 0.5 * span, xs[-1] + 1e-9, xs[-1] + 3 * span, math.nextafter(xs[0], -math.inf), math.nextafter(xs[-1], math.inf)):
    for nm, f in funcs:
      vals = (f(q), f.deriv(q), f.deriv2(q))
      ctx.count("outside_points")
      if any(v != 0 for v in vals):
        ctx.violation("nonzero_outside", "%s: outside [%r, %r] at %r value/deriv/deriv2 = %r" % (nm, xs[0], xs[-1], q, vals), what="nonzero_outside")
        return
  # between the knots: the three constructions are the same function (bitwise for xy vs x/y)
  for _ in range(40):
    q = rng.uniform(xs[0], xs[-1])
    a, b, c = f_api(q), f_xy(q), f_x_y(q)
    if b != c or f_xy.deriv(q) != f_x_y.deriv(q) or f_xy.deriv2(q) != f_x_y.deriv2(q):
      ctx.violation("xy_vs_x_y", "xy and x/y input differ at %r: %r vs %r" % (q, b, c), what="xy_vs_x_y")
      return
    if not (abs(a - b) <= 1e-12 * scale):
      ctx.violation("api_vs_potable", "Cubic_Spline_Table_Form and [Table-Form] differ at %r: %r vs %r" % (q, a, b), what="api_vs_potable")
      return
    # derivatives are those of the interpolant
    hmin = min(q - xs[0], xs[-1] - q)
    for nm, f in funcs[:2]:
      g1, g2 = f.deriv(q), f.deriv2(q)
      ctx.count("derivative_points")
      s1 = max(abs(float(d1r(q))), scale / span)
      s2 = max(abs(float(d2r(q))), scale / span ** 2)
      if not (abs(g1 - float(d1r(q))) <= 1e-8 * s1 and abs(g2 - float(d2r(q))) <= 1e-8 * s2):
        ctx.violation("derivative", "%s: deriv/deriv2 at %r = %r/%r, independent spline of the same data gives %r/%r" % (nm, q, g1, g2, float(d1r(q)), float(d2r(q))), what="derivative")
        return
      # model-free: Richardson differences of the callable itself, away from knots (C2 only) and ends
      gaps = [abs(q - k) for k in xs]
      h = min(min(gaps) * 0.4, 1e-3 * max(1.0, abs(q)))
      if h > 1e-6 and hmin > 2 * h:
        r1 = richardson(f, q, h)
        if not (abs(r1 - g1) <= 1e-5 * s1 + 1e-9 * scale / h):
          ctx.violation("derivative_vs_differences", "%s: deriv(%r) = %r but differences of the callable give %r" % (nm, q, g1, r1), what="derivative_vs_differences")
          return
        r2 = richardson(f.deriv, q, h)
        if not (abs(r2 - g2) <= 1e-5 * s2 + 1e-9 * s1 / h):
          ctx.violation("derivative_vs_differences", "%s: deriv2(%r) = %r but differences of .deriv give %r" % (nm, q, g2, r2), what="derivative_vs_differences")
          return
  ctx.nontrivial(len(xs) >= 4 and len(set(ys)) > 1)


def run_reader(case, ctx):
  import atsim.potentials as ap
  xs, ys = case["x"], case["y"]
  rng = random.Random(case["seed"])
  rows = list(zip(xs, ys))
  order = list(rows)
  if case["shuffle"]:
    rng.shuffle(order)
  how = case.get("order")
  if how == "text":
    order.sort(key=lambda ab: repr(ab[0]))
  elif how == "descending":
    order.reverse()
  elif how == "one_swap":
    j = rng.randrange(len(order) - 1)
    order[j], order[j + 1] = order[j + 1], order[j]
  elif how == "last_first":
    order.insert(0, order.pop())
  elif how == "first_last":
    order.append(order.pop(0))
  if how:
    ctx.cls("row_order:" + how + ("" if order != rows else "(same as sorted)"))
  nl = "\r\n" if case["crlf"] else "\n"
  lines = []
  st = emit.Style(rng)
  spellings = set()

  def spell(v):
    # numerals that denote exactly the same double: 0.5 | +0.5 | .5 | 5.0000000000000000e-01 | 0.50
    t = st.num(float(v)) if case.get("spellings", True) else repr(v)
    if t.startswith(".") or t.startswith("-.") or t.startswith("+."):
      spellings.add("leading_dot")
    elif t.startswith("+"):
      spellings.add("plus_sign")
    elif "e" in t.lower():
      spellings.add("exponent")
    return t
  for i, (a, b) in enumerate(order):
    if case["comments"] and rng.random() < 0.2:
      lines.append(rng.choice(["# a comment", "", "   ", "#%s %s" % (a + 0.5, b)]))
    lines.append(rng.choice(["%s %s", "%s   %s", "  %s %s", "%s\t%s"]) % (spell(a), spell(b)) + (rng.choice(["", " ", "  "]) if i < len(order) - 1 or case["final_newline"] else ""))
  text = nl.join(lines) + (nl if case["final_newline"] else "")
  for sp_ in spellings:
    ctx.cls("numeral:" + sp_)
  if case.get("magnitude"):
    ctx.cls("reader_extreme_magnitudes")
  ctx.cls("final_newline" if case["final_newline"] else "no_final_newline")
  ctx.cls("crlf" if case["crlf"] else "lf")
  ctx.cls("shuffled" if case["shuffle"] else "sorted")
  try:
    f = ap.TableReader(io.StringIO(text, newline="") if False else io.StringIO(text))
  except Exception as e:
    et, fn = exc_sig(e)
    ctx.violation("reader_exception", "TableReader failed on a well-formed file (final newline: %s): %s %s" % (case["final_newline"], et, e), what="reader_exception", exc=et,
                  final_newline=str(case["final_newline"]))
    return
  if len(f.datReader) != len(rows):
    ctx.violation("reader_rows", "%d rows read, %d given" % (len(f.datReader), len(rows)), what="reader_rows")
    return
  for i, (a, b) in enumerate(rows):
    v = f(a)
    ctx.count("reader_points")
    if v != b:
      ctx.violation("reader_data_point", "TableReader(%r) = %r, tabulated %r (row %d of %d, final newline: %s)" % (a, v, b, i + 1, len(rows), case["final_newline"]),
                    what="reader_data_point", last_row=str(i == len(rows) - 1), final_newline=str(case["final_newline"]))
      return
  for (a, b), (c, d) in zip(rows, rows[1:]):
    for t in ((0.25, 0.5, 0.9) if not case.get("dense_queries") else [j_ / 37.0 for j_ in range(1, 37)]):
      q = a + (c - a) * t
      v = f(q)
      from fractions import Fraction as Fr
      want = float(Fr(b) + (Fr(d) - Fr(b)) * (Fr(q) - Fr(a)) / (Fr(c) - Fr(a)))      # exact: no overflow / underflow on the way
      ctx.count("reader_points")
      lo, hi = min(b, d), max(b, d)
      tol = 0.0       # "a value between the two neighbouring y values": not one ulp outside them either (flat segments!)
      if not (lo - tol <= v <= hi + tol) or not (abs(v - want) <= 1e-9 * max(abs(b), abs(d), 1e-300)):
        ctx.violation("reader_interpolation", "TableReader(%r) = %r, linear interpolant between (%r,%r) and (%r,%r) is %r" % (q, v, a, b, c, d, want), what="reader_interpolation")
        return
  span = max(1.0, abs(xs[0]) * 1e-9, abs(xs[-1]) * 1e-9)      # (x +- 1.0 is x itself for huge x)
  for q in (xs[0] - span, xs[-1] + span, math.nextafter(xs[0], -math.inf), math.nextafter(xs[-1], math.inf)):
    if f(q) != 0.0:
      ctx.violation("reader_outside", "TableReader(%r) = %r outside [%r, %r]" % (q, f(q), xs[0], xs[-1]), what="reader_outside")
      return
  ctx.nontrivial(len(rows) >= 2)
  if case.get("magnitude") or len(rows) < 2:
    return
  # the reader class behind TableReader.datReader with its unit conversions (inputConvert for x, outputConvert for y; powers of
  # two, so the converted table is exact): it is then the table of the CONVERTED points - tabulated y at every converted x,
  # between the neighbours in between, 0 outside (seeded change C18r10 searched the unconverted x values)
  from atsim.potentials._tablereaders import DatReader
  k_ = len(rows) + len(text)
  cx, cy = [0.5, 2.0, 0.25, 4.0][k_ % 4], [2.0, -1.0, 0.5][k_ % 3]
  try:
    g = DatReader(io.StringIO(text), (lambda x: x * cx) if k_ % 5 else None, (lambda y: y * cy) if k_ % 7 else None)
  except Exception as e:
    et, fn = exc_sig(e)
    ctx.violation("reader_exception", "DatReader with unit conversions failed on a well-formed file: %s %s" % (et, e), what="reader_exception", exc=et, final_newline="conversions")
    return
  if not k_ % 5:
    cx = 1.0
  if not k_ % 7:
    cy = 1.0
  ctx.cls("reader_unit_conversion:x*%s,y*%s" % (cx, cy))
  conv = [(a * cx, b * cy) for a, b in rows]
  try:
    for a, b in conv:
      ctx.count("reader_converted_points")
      v = g.getValue(a)
      if v != b:
        ctx.violation("reader_data_point", "DatReader(inputConvert x*%s, outputConvert y*%s).getValue(%r) = %r, tabulated (converted) %r" % (cx, cy, a, v, b), what="reader_data_point", last_row="conv", final_newline="conversions")
        return
    for (a, b), (c, d) in zip(conv, conv[1:]):
      q = a + (c - a) * 0.5
      v = g.getValue(q)
      ctx.count("reader_converted_points")
      if not (min(b, d) <= v <= max(b, d)):
        ctx.violation("reader_interpolation", "DatReader(x*%s, y*%s).getValue(%r) = %r, not between the neighbouring (converted) values %r and %r" % (cx, cy, q, v, b, d), what="reader_interpolation")
        return
    for q in (conv[0][0] - span, conv[-1][0] + span):
      if g.getValue(q) != 0.0:
        ctx.violation("reader_outside", "DatReader(x*%s, y*%s).getValue(%r) = %r outside the converted range" % (cx, cy, q, g.getValue(q)), what="reader_outside")
        return
  except Exception as e:
    et, fn = exc_sig(e)
    ctx.violation("reader_exception", "DatReader with unit conversions failed at a query inside or beside its range: %s %s" % (et, e), what="reader_exception", exc=et, final_newline="conversions")


def run_reader_nonfinite_x(case, ctx):
  import atsim.potentials as ap
  ctx.cls("reader_row_with_nonfinite_x:" + case["bad"].lower().lstrip("-"))
  rng = random.Random(case["seed"])
  rows = list(zip(case["x"], case["y"]))
  rng.shuffle(rows)
  lines = ["%r %r" % (a, b) for a, b in rows]
  lines.insert(case["at"], "%s 5.0" % case["bad"])
  try:
    f = ap.TableReader(io.StringIO("\n".join(lines) + "\n"))
  except Exception as e:
    ctx.count("reader_nonfinite_refused")
    ctx.nontrivial(True)
    return
  for a, b in rows:
    ctx.count("reader_points")
    try:
      v = f(a)
    except Exception as e:
      et, fn = exc_sig(e)
      ctx.violation("reader_exception", "TableReader accepted a file with an x of %s, then failed at a tabulated x: %s %s" % (case["bad"], et, e), what="reader_exception", exc=et, final_newline="nonfinite")
      return
    if v != b:
      ctx.violation("reader_data_point", "TableReader accepted a file holding a row with x = %s; TableReader(%r) = %r, tabulated %r" % (case["bad"], a, v, b), what="reader_data_point", last_row="False", final_newline="nonfinite")
      return
  ctx.nontrivial(True)


def run_table_hashpair(case, ctx):
  ctx.cls("two_table_forms_differing_by_minus_one_and_minus_two")
  xs, ys = list(case["x"]), list(case["y"])
  at = case["at"]
  a_, b_ = (-1.0, -2.0) if case["order"] else (-2.0, -1.0)
  if case["in_x"]:
    # the first abscissa (everything else lies above it)
    shift = max(0.0, -3.0 - min(xs))
    xs1 = [a_] + [x + 3.0 for x in xs[1:]] if True else xs
    xs2 = [b_] + [x + 3.0 for x in xs[1:]]
    xs1[1:] = [x - min(xs[1:]) + 0.5 for x in xs[1:]]
    xs2[1:] = list(xs1[1:])
    d1, d2 = (xs1, ys), (xs2, ys)
  else:
    y1, y2 = list(ys), list(ys)
    y1[at], y2[at] = a_, b_
    d1, d2 = (xs, y1), (xs, y2)
  def sec(name, d):
    return "[Table-Form:%s]\nx : %s\ny : %s\n" % (name, " ".join(fnum(v) for v in d[0]), " ".join(fnum(v) for v in d[1]))
  lo = min(d1[0][0], d2[0][0]) - 10.0
  text = "[Tabulation]\ntarget : LAMMPS\nnr : 5\ncutoff : 2.0\n\n[Pair]\nA-A : >=%s tone\nB-B : >=%s ttwo\n\n%s\n%s" % (fnum(lo), fnum(lo), sec("tone", d1), sec("ttwo", d2))
  try:
    pots = {p.speciesA: p.potentialFunction for p in routes.read_config(text).potentials}
  except Exception as e:
    et, fn = exc_sig(e)
    ctx.violation("exception", "two table forms could not be built: %s %s" % (et, e), what="exception", exc=et, func=fn)
    return
  for nm, d in (("A", d1), ("B", d2)):
    scale = max(abs(v) for v in d[1]) or 1.0
    for x_, y_ in zip(*d):
      v = pots[nm](x_)
      ctx.count("knot_points")
      if not (abs(v - y_) <= 1e-9 * scale):
        ctx.violation("data_point", "table form %s of two that differ only by -1 / -2: f(%r) = %r, tabulated y = %r" % ("tone" if nm == "A" else "ttwo", x_, v, y_), what="data_point", mech="hash_colliding_tables")
        return
  ctx.nontrivial(True)


def run_reader_empty(case, ctx):
  import atsim.potentials as ap
  ctx.cls("reader_file_without_rows")
  try:
    f = ap.TableReader(io.StringIO(case["text"]))
    vals = [f(q) for q in (0.0, 1.0, -3.5, 1e9)]
    ctx.count("reader_points", len(vals))
    out = routes.text_sink()
    ap.plotToFile(out, 0.0, 2.0, f, 4)
    rowsw = [l.split() for l in out.getvalue().splitlines() if l.strip()]
    vals += [float(r_[1]) for r_ in rowsw]
    ctx.count("plot_rows", len(rowsw))
  except Exception as e:
    et, fn = exc_sig(e)
    ctx.violation("reader_exception", "TableReader over a file without data rows: %s %s (0 outside the tabulated range - which is everywhere - is expected)" % (et, e), what="reader_exception", exc=et, final_newline="empty")
    return
  if any(v != 0.0 for v in vals):
    ctx.violation("reader_outside", "TableReader over a file without data rows returns %r" % (vals,), what="reader_outside")
    return
  ctx.nontrivial(True)


def run_plot(case, ctx):
  if case.get("coinciding_rows"):
    ctx.cls("plot_rows_on_the_same_double")
  import os
  import tempfile
  import atsim.potentials as ap
  lo, hi, steps = case["lo"], case["hi"], case["steps"]
  a, b, c = 1.5, -0.25, 0.125
  fn = lambda r: a + b * r + c * r * r
  which = case["which"]
  ctx.cls(["plotToFile", "plot", "plotPotentialObjectToFile", "plotPotentialObject"][which])
  tmp = None
  try:
    if which == 0:
      out = routes.text_sink()
      ap.plotToFile(out, lo, hi, fn, steps)
      text = out.getvalue()
    elif which == 2:
      out = routes.text_sink()
      ap.plotPotentialObjectToFile(out, lo, hi, ap.Potential("A", "B", fn), steps)
      text = out.getvalue()
    else:
      fd, tmp = tempfile.mkstemp(prefix="plot-", dir=os.environ.get("VERIF_TMP"))
      os.close(fd)
      if which == 1:
        ap.plot(tmp, lo, hi, fn, steps)
      else:
        ap.plotPotentialObject(tmp, lo, hi, ap.Potential("A", "B", fn), steps)
      text = open(tmp).read()
  except Exception as e:
    et, fnn = exc_sig(e)
    ctx.violation("plot_exception", "%s %s" % (et, e), what="plot_exception")
    return
  finally:
    if tmp and os.path.exists(tmp):
      os.unlink(tmp)
  lines = text.split("\n")
  if lines[-1] == "":
    lines = lines[:-1]
  if len(lines) != steps:
    ctx.violation("plot_row_count", "%d rows written, steps = %d" % (len(lines), steps), what="plot_row_count")
    return
  step = (hi - lo) / float(steps)
  for i, l in enumerate(lines):
    t = l.split()
    if len(t) != 2:
      ctx.violation("plot_format", "row %d: %r" % (i, l), what="plot_format")
      return
    x, y = float(t[0]), float(t[1])
    ctx.count("plot_rows")
    want_x = lo + float(i) * step
    if x != want_x:
      ctx.violation("plot_x", "row %d: x = %r, expected lowx + i*(highx-lowx)/steps = %r" % (i, x, want_x), what="plot_x")
      return
    if y != fn(x):
      ctx.violation("plot_y", "row %d: y = %r, f(x) = %r" % (i, y, fn(x)), what="plot_y")
      return
  ctx.nontrivial(steps >= 2)


def run_case(case, ctx):
  ctx.cls("kind:" + case["kind"])
  return {"table": run_table, "reader": run_reader, "plot": run_plot, "reader_empty": run_reader_empty, "reader_nonfinite_x": run_reader_nonfinite_x, "table_hashpair": run_table_hashpair}[case["kind"]](case, ctx)
