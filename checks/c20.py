"""C20 - each interaction/form is defined at most once; duplicates are rejected (DESIGN.md section 4, C20)."""
import copy
import random

import basemodels as bm
import routes
from harness import exc_sig

PROPERTY_ID = "C20"
LEVEL = "exploration"
RULE = ("feature-rich valid base models for all 11 targets x a catalogue of duplication operators applied EXHAUSTIVELY (operator x every base model it "
        "applies to): same key twice; reversed pair; whitespace variants of 'A-B', 'A->B', 'f(r,A)'; [Table-Form:name] vs [Table-Form: name] / "
        "[Table-Form:name ] / [Table-Form :name]; a table form named like a custom form or like a built-in (as.bornmayer); two custom forms with one "
        "label and different signatures; duplicate embedding / density keys. The two competing definitions carry different identifying constants, so an "
        "accepted model shows which one won. Non-trivial: every duplicated model; distinct = canonical JSON of (operator, target, seed).")
ASSUMPTIONS = ["the catalogue is the statement's own list of ways to duplicate an entry", "base models are accepted (checked by C16 and re-checked here)"]
ANCHORS = ["_config_parser.py:ConfigParser._check_for_duplicate_pairs", "_config_parser.py:_TableFormSection.check_for_duplicate_table_forms",
           "_potential_form_registry.py:Potential_Form_Registry._build_potential_forms", "_potential_form_registry.py:Potential_Form_Registry._build_table_forms",
           "_config_parser.py:_RawConfigParser.optionxform"]
MIN_NONTRIVIAL = {"quick": 100, "thorough": 1000}
MIN_COUNTERS = {"duplicates_judged": 100, "base_models_accepted": 10}
EXHAUSTIVE = True
TECHNIQUE = "runtime monitoring: outcome classifier over an exhaustively applied duplication-operator catalogue; identifying constants reveal which definition a silently accepted model follows"
LEVEL_TEXT = ("Exhaustive over (duplication operator x applicable base model): each duplicated model is run through the real reader and writer (and "
              "through potable main()); anything other than a configuration error is a violation, and for silently accepted models the tabulated "
              "function is evaluated to report which of the two definitions won.")
LEVEL_NOTE = "Trusted: the operator catalogue."
DESIGN_REF = "DESIGN.md section 4, C20"

ALL_TARGETS = bm.PAIR_TARGETS + bm.EAM_TARGETS + bm.FS_TARGETS + bm.ADP_TARGETS
SECOND = "as.constant 777.0"


def dup_entry(section, key_fn, value=SECOND, pick=lambda k, v: True, where="after"):
  def f(items, info, rng):
    s = bm.sec(items, section)
    if s is None:
      return None
    cands = [kv for kv in s[1] if pick(kv[0], kv[1])]
    if not cands:
      return None
    kv = rng.choice(cands)
    new = [key_fn(kv[0], rng), value]
    idx = s[1].index(kv)
    s[1].insert(idx + 1 if where == "after" else idx, new)
    return items, kv[0], new[0]
  return f


def ws(key, rng):
  out = ""
  for ch in key:
    if ch in "-,(>" :
      out += rng.choice([" " + ch, ch + " ", " " + ch + " "])
    else:
      out += ch
  out = out.replace("- >", "->").replace("-  >", "->")
  return out if out != key else key.replace("-", " - ", 1)


def rev(key, rng):
  a, b = key.split("-")
  return "%s-%s" % (b, a)


def dup_table(header_fn, name="tbl"):
  def f(items, info, rng):
    t = bm.sec(items, "Table-Form:%s" % name)
    new = [header_fn(name, rng), [["x", "0 1 2 3 4 10"], ["y", "777 777 777 777 777 777"]]]
    items.insert(items.index(t) + (1 if rng.random() < 0.5 else 0), new)
    return items, t[0], new[0]
  return f


def table_named(name_fn):
  def f(items, info, rng):
    nm = name_fn(rng)
    items.append(["Table-Form:%s" % nm, [["x", "0 1 2 3 4 10"], ["y", "777 777 777 777 777 777"]]])
    return items, nm, "Table-Form:%s" % nm
  return f


def second_form(sig_fn):
  def f(items, info, rng):
    s = bm.sec(items, "Potential-Form")
    kv = [kv for kv in s[1] if kv[0].startswith("cf")][0]
    new = [sig_fn(kv[0], rng), "777.0 + 0*r"]
    s[1].insert(s[1].index(kv) + (1 if rng.random() < 0.5 else 0), new)
    return items, kv[0], new[0]
  return f


def added_twice(section, key, variant):
  """Both definitions arrive through --add-item / additional= in ONE invocation (the file itself has neither)."""
  def f(items, info, rng):
    k1 = key(info, rng)
    k2 = variant(k1, rng)
    return items, k1, k2, [[section, k1, "as.constant 1.0" if section != "Potential-Form" else "1.0 + 0*r"],
                           [section, k2, SECOND if section != "Potential-Form" else "777.0 + 0*r"]]
  return f


def added_over_file(section, variant, pick=lambda k, v: True):
  """The file defines the item; a variant of its key is supplied through --add-item / additional=."""
  def f(items, info, rng):
    s = bm.sec(items, section)
    if s is None:
      return None
    cands = [kv for kv in s[1] if pick(kv[0], kv[1])]
    if not cands:
      return None
    kv = rng.choice(cands)
    k2 = variant(kv[0], rng)
    return items, kv[0], k2, [[section, k2, SECOND if section != "Potential-Form" else "777.0 + 0*r"]]
  return f


def entry_set(items, section, key_prefix, fn):
  for kv in bm.sec(items, section)[1]:
    if kv[0].startswith(key_prefix):
      kv[1] = fn(kv[1])
      return kv
  return None


def dup_section(section, variant):
  """A second SECTION whose header differs from an existing one only in white space, defining one of its keys again."""
  def f(items, info, rng):
    s = bm.sec(items, section)
    if s is None or not s[1]:
      return None
    kv = rng.choice(s[1])
    hdr = variant(section, rng)
    value = SECOND if section not in ("Tabulation", "Species", "Potential-Form") else {"Tabulation": kv[1], "Species": "777.0", "Potential-Form": "777.0 + 0*r"}[section]
    items.insert(items.index(s) + 1 if rng.random() < 0.5 else len(items), [hdr, [[kv[0], value]]])
    return items, "[%s] %s" % (section, kv[0]), "[%s] %s" % (hdr, kv[0])
  return f


HDR_WS = lambda name, rng: rng.choice([" " + name, name + " ", "\t" + name, name[:1] + " " + name[1:], " " + name + " "])


def added_table_form(header_fn):
  """A second definition of the file's table form 'tbl' supplied through additional= (API only: the command line cannot
  address a section whose name holds a colon) under a header that differs at most in white space."""
  def f(items, info, rng):
    hdr = header_fn(rng)
    return items, "Table-Form:tbl", hdr, [[hdr, "x", "0 1 2 3 4 10"], [hdr, "y", "777 777 777 777 777 777"]], "api_only"
  return f


NEWPAIR = lambda info, rng: "%s-%s" % (rng.choice(["He", "Ne"]), rng.choice(["Kr", "Xe"]))
SAME = lambda k, rng: k
NOT_SELF = lambda k, v: k.split("-")[0] != k.split("-")[-1]

OPS = [
  ("pair_same_key_twice", "*", dup_entry("Pair", SAME)),
  ("pair_reversed", "*", dup_entry("Pair", rev, pick=NOT_SELF)),
  ("pair_reversed_before", "*", dup_entry("Pair", rev, pick=NOT_SELF, where="before")),
  ("pair_whitespace_variant", "*", dup_entry("Pair", ws)),
  ("pair_reversed_whitespace_variant", "*", dup_entry("Pair", lambda k, rng: ws(rev(k, rng), rng), pick=NOT_SELF)),
  ("pair_reversed_labels_differ_only_in_case", "*", lambda items, info, rng: (lambda A: (bm.sec(items, "Pair")[1].extend([["%s-%s" % (A, A.upper()), "as.constant 1.0"], ["%s-%s" % (A.upper(), A), SECOND]]), (items, "%s-%s" % (A, A.upper()), "%s-%s" % (A.upper(), A)))[1])(info["species"][0] if info["species"][0].upper() != info["species"][0] else info["species"][0] + "x")),
  # one label is the other followed by a character that sorts below / above '-' (ions: Na and Na+; Fe and Fe2):
  # joined label strings order differently from label tuples
  ("pair_reversed_one_label_prefix_of_other", "*", lambda items, info, rng: (lambda A, B, fl: (bm.sec(items, "Pair")[1].extend([["%s-%s" % ((A, B) if fl else (B, A)), "as.constant 1.0"], ["%s-%s" % ((B, A) if fl else (A, B)), SECOND]]),
      (items, "%s-%s" % ((A, B) if fl else (B, A)), "%s-%s" % ((B, A) if fl else (A, B))))[1])("Qq", "Qq" + rng.choice(["+", "+2", "*", "1", "_", "a", ",", "!", "."]), rng.random() < 0.5)),
  ("added_twice_pair_reversed_one_label_prefix_of_other", "*", added_twice("Pair", lambda info, rng: rng.choice(["Qq-Qq%s", "Qq%s-Qq"]) % rng.choice(["+", "+2", "*", "1", "a", "!"]), rev)),
  ("embed_same_key_twice", "eam fs adp", dup_entry("EAM-Embed", SAME)),
  ("density_same_key_twice", "eam adp", dup_entry("EAM-Density", SAME)),
  ("fs_density_same_key_twice", "fs", dup_entry("EAM-Density", SAME)),
  ("fs_density_whitespace_variant", "fs", dup_entry("EAM-Density", ws)),
  # labels that are words of the expression language (a formula cannot call them, but an entry can use them): the
  # duplicate checks are about labels, not about what a probe expression can evaluate
  ("custom_form_reserved_word_label_twice", "*", lambda items, info, rng: (lambda w: (bm.sec(items, "Potential-Form")[1].extend([["%s(r, A)" % w, "1.0 + 0*r + 0*A"], ["%s(r, B)" % w, "777.0 + 0*r + 0*B"]]),
      (items, "%s(r, A)" % w, "%s(r, B)" % w))[1])(rng.choice(["while", "for", "if", "and", "return", "switch", "not"]))),
  ("table_form_named_like_reserved_word_custom_form", "*", lambda items, info, rng: (lambda w: (bm.sec(items, "Potential-Form")[1].append(["%s(r, A)" % w, "1.0 + 0*r + 0*A"]),
      items.append(["Table-Form:%s" % w, [["x", "0 1 2 3 4 10"], ["y", "777 777 777 777 777 777"]]]), (items, "%s(r, A)" % w, "Table-Form:%s" % w))[2])(rng.choice(["while", "for", "switch", "return"]))),
  ("custom_form_same_signature_twice", "*", second_form(SAME)),
  ("custom_form_whitespace_variant", "*", second_form(lambda k, rng: k.replace(", ", ",") if ", " in k else k.replace(",", " , "))),
  ("custom_form_same_label_other_signature", "*", second_form(lambda k, rng: "cf(r, B)")),
  ("custom_form_same_label_other_r_name", "*", second_form(lambda k, rng: "cf(rij, A, rho)")),
  ("table_form_same_header_twice", "*", dup_table(lambda n, rng: "Table-Form:%s" % n)),
  ("table_form_space_after_colon", "*", dup_table(lambda n, rng: "Table-Form: %s" % n)),
  ("table_form_space_before_bracket", "*", dup_table(lambda n, rng: "Table-Form:%s " % n)),
  ("table_form_space_before_colon", "*", dup_table(lambda n, rng: "Table-Form :%s" % n)),
  ("table_form_named_like_custom_form", "*", table_named(lambda rng: rng.choice(["cf", "other"]))),
  ("table_form_named_like_builtin", "*", table_named(lambda rng: rng.choice(["as.bornmayer", "as.morse", "as.constant", "as.buck4", "as.buck4"]))),
  ("custom_form_named_like_table_form", "*", lambda items, info, rng: (bm.sec(items, "Potential-Form")[1].append(["tbl(r)", "777.0 + 0*r"]), (items, "tbl", "tbl(r)"))[1]),
  ("adp_dipole_same_key_twice", "adp", dup_entry("EAM-ADP-Dipole", SAME)),
  ("adp_dipole_reversed", "adp", dup_entry("EAM-ADP-Dipole", rev, pick=NOT_SELF)),
  ("added_twice_pair_same_key", "*", added_twice("Pair", NEWPAIR, SAME)),
  ("added_twice_pair_whitespace_variant", "*", added_twice("Pair", NEWPAIR, ws)),
  ("added_twice_pair_whitespace_variant_first", "*", added_twice("Pair", lambda info, rng: ws(NEWPAIR(info, rng), rng), lambda k, rng: k.replace(" ", ""))),
  ("added_twice_pair_reversed", "*", added_twice("Pair", NEWPAIR, rev)),
  ("added_twice_custom_form_whitespace_variant", "*", added_twice("Potential-Form", lambda info, rng: "zz(r,q)", lambda k, rng: rng.choice(["zz(r, q)", "zz (r,q)", "zz( r , q )"]))),
  ("added_twice_fs_density_whitespace_variant", "fs", added_twice("EAM-Density", lambda info, rng: "%s->Zz" % info["species"][0], ws)),
  ("added_over_file_pair_whitespace_variant", "*", added_over_file("Pair", ws)),
  ("added_over_file_pair_reversed", "*", added_over_file("Pair", rev, pick=NOT_SELF)),
  ("added_over_file_custom_form_whitespace_variant", "*", added_over_file("Potential-Form", lambda k, rng: k.replace(", ", ",") if ", " in k else k.replace(",", " , "))),
  ("added_over_file_embed_same_key", "eam fs adp", added_over_file("EAM-Embed", SAME)),
  # labels that differ only in case: [Pair] lines look them up case-sensitively, formulas (exprtk) case-insensitively -
  # inside a formula the two are ONE function, so one of the definitions silently stands in for the other
  ("custom_form_labels_differ_only_in_case", "*", lambda items, info, rng: (bm.sec(items, "Potential-Form")[1].append(["CF(r, A, rho)", "777.0 + 0*r"]), (items, "cf(r, A, rho)", "CF(r, A, rho)"))[1]),
  ("custom_form_label_case_variant_of_called_form", "*", lambda items, info, rng: (bm.sec(items, "Potential-Form")[1].insert(0, ["Other(r, k)", "777.0 + 0*r"]), (items, "other(r, k)", "Other(r, k)"))[1]),
  ("table_form_label_case_variant_of_custom_form", "*", table_named(lambda rng: rng.choice(["CF", "Other", "OTHER"]))),
  ("table_form_labels_differ_only_in_case", "*", table_named(lambda rng: rng.choice(["TBL", "Tbl"]))),
  ("table_form_label_case_variant_of_pymath_function", "*", table_named(lambda rng: rng.choice(["PYMATH.FLOOR", "Pymath.Ceil", "pymath.EXP", "PyMath.sqrt"]))),
  ("table_form_label_case_variant_of_builtin", "*", table_named(lambda rng: rng.choice(["AS.bornmayer", "as.Morse", "As.buck4"]))),
  # a label that the expression language already uses for one of its own functions (also in another case): a formula
  # calling it gets the built-in, not the definition the user can see
  ("custom_form_named_like_expression_builtin", "*", lambda items, info, rng: (lambda nm: (bm.sec(items, "Potential-Form")[1].insert(0, ["%s(r, k)" % nm, "777.0 + 0*r + 0*k"]),
      entry_set(items, "Potential-Form", "cf", lambda v: v.replace("other(r,", "%s(r," % nm)), (items, "built-in %s" % nm, "%s(r, k)" % nm))[2])(rng.choice(["pow", "mod", "Max", "Hypot", "shl", "logn", "ATAN2", "roundn"]))),
  ("table_form_named_like_expression_builtin", "*", lambda items, info, rng: (lambda nm: (items.append(["Table-Form:%s" % nm, [["x", "0 1 2 3 4 10"], ["y", "777 777 777 777 777 777"]]]),
      entry_set(items, "Potential-Form", "cf", lambda v: v + " + 0*%s(r)" % nm), (items, "built-in %s" % nm, "Table-Form:%s" % nm))[2])(rng.choice(["Exp", "sqrt", "ABS", "Cos", "erfc"]))),
  ("pair_section_header_whitespace_variant", "*", dup_section("Pair", HDR_WS)),
  ("embed_section_header_whitespace_variant", "eam fs adp", dup_section("EAM-Embed", HDR_WS)),
  ("density_section_header_whitespace_variant", "eam fs adp", dup_section("EAM-Density", HDR_WS)),
  ("potential_form_section_header_whitespace_variant", "*", dup_section("Potential-Form", HDR_WS)),
  ("table_form_leading_space_in_header", "*", dup_table(lambda n, rng: rng.choice([" Table-Form:%s", "\tTable-Form:%s", " Table-Form : %s "]) % n)),
  ("added_table_form_whitespace_variant_header", "*", added_table_form(lambda rng: rng.choice(["Table-Form : tbl", "Table-Form: tbl", "Table-Form :tbl", " Table-Form:tbl"]))),
  ("added_table_form_named_like_custom_form", "*", added_table_form(lambda rng: "Table-Form:cf")),
]


def gen_cases(rng, tier):
  cases = []
  reps = 2 if tier == "quick" else 16
  for rep in range(reps):
    for ti, target in enumerate(ALL_TARGETS):
      seed = rng.randrange(1 << 30)
      kind = bm.kind_of(target)
      cases.append({"kind": "base", "target": target, "seed": seed})
      for oi, (name, kinds, fn) in enumerate(OPS):
        if kinds != "*" and kind not in kinds.split():
          continue
        if tier == "quick" and (oi + ti + rep) % 2 and target not in ("LAMMPS", "setfl", "setfl_fs", "eam_adp"):
          continue
        cases.append({"kind": "dup", "op": name, "target": target, "seed": seed, "route": "main" if (oi + ti) % 4 == 0 else "inproc"})
  return cases


def classify(text, route, adds=()):
  from atsim.potentials.config._common import ConfigurationException
  if route == "main":
    extra = []
    for s_, k_, v_ in adds:
      extra += ["--add-item", "%s:%s=%s" % (s_, k_, v_)]
    res = routes.potable_main(["@IN", "@OUT"] + extra, text)
    if res["rc"] == 0:
      return {"outcome": "accepted", "tab": None}
    if res["rc"] == 2 and "configuration error - " in res["err"]:
      return {"outcome": "config_error", "msg": res["err"].strip().split("\n")[-1][:200]}
    et, fn = exc_sig(res["exc"]) if res.get("exc") is not None else ("exit%s" % res["rc"], "?")
    return {"outcome": "internal", "exc": et, "func": fn, "msg": res["err"][-200:]}
  try:
    if adds:
      from atsim.potentials.config import ConfigParser, Configuration, ConfigParserOverrideTuple as T
      import io
      tab = Configuration().read_from_parser(ConfigParser(io.StringIO(text), additional=[T(s_, k_, v_) for s_, k_, v_ in adds]))
    else:
      tab = routes.read_config(text)
    routes.write_tab(tab)
    return {"outcome": "accepted", "tab": tab}
  except ConfigurationException as e:
    return {"outcome": "config_error", "msg": str(e)[:200]}
  except Exception as e:
    et, fn = exc_sig(e)
    return {"outcome": "internal", "exc": et, "func": fn, "msg": str(e)[:200]}


def who_won(tab, info):
  """Evaluate every function of the accepted model; 777 identifies the second definition."""
  if tab is None:
    return "unknown (CLI route)"
  vals = []
  try:
    for p in tab.potentials:
      vals.append(p.energy(1.7))
    for ep in getattr(tab, "eam_potentials", []):
      vals.append(ep.embeddingFunction(1.7))
      d = ep.electronDensityFunction
      vals += [f(1.7) for f in d.values()] if isinstance(d, dict) else [d(1.7)]
    for p in getattr(tab, "dipole_potentials", []):
      vals.append(p.energy(1.7))
  except Exception as e:
    return "evaluation failed: %r" % (e,)
  return "second definition (777) is in effect" if any(abs(v - 777.0) < 1e-6 or abs(v) > 700 for v in vals) else "first definition is in effect, second silently ignored"


def run_case(case, ctx):
  rng = random.Random(case["seed"])
  target = case["target"]
  info = bm.base_items(rng, target)
  items = info["items"]
  ctx.cls("target:" + target)
  if case["kind"] == "base":
    r = classify(bm.items_text(items), "inproc")
    ctx.nontrivial(True)
    if r["outcome"] != "accepted":
      ctx.violation("base_model_refused", "base model for %s refused: %s" % (target, r), what="base_model_refused")
    else:
      ctx.count("base_models_accepted")
    return
  name = case["op"]
  fn = [o for o in OPS if o[0] == name][0][2]
  mrng = random.Random(case["seed"] ^ 0x2545f491)
  res = fn(copy.deepcopy(items), info, mrng)
  if res is None:
    ctx.count("operator_not_applicable")
    return
  adds = ()
  if len(res) == 5:
    mutated, first, second, adds, _ = res
    case = dict(case)
    case["route"] = "inproc"
    ctx.cls("second_definition_supplied_by_add_item")
  elif len(res) == 4:
    mutated, first, second, adds = res
    # control: the first addition alone must be acceptable, or the operator proves nothing
    if len(adds) == 2:
      c0 = classify(bm.items_text(mutated), case["route"], adds[:1])
      if c0["outcome"] != "accepted":
        ctx.count("operator_not_applicable")
        ctx.note("control refused for %s: %s" % (name, c0))
        return
    ctx.cls("second_definition_supplied_by_add_item")
  else:
    mutated, first, second = res
  text = bm.items_text(mutated)
  ctx.cls("op:" + name)
  ctx.cls("route:" + case["route"])
  r = classify(text, case["route"], adds)
  ctx.count("duplicates_judged")
  ctx.nontrivial(True)
  if r["outcome"] == "config_error":
    ctx.cls("refused:" + name)
    return
  if r["outcome"] == "accepted":
    ctx.violation("duplicate_accepted", "operator %s (target %s): %r defined again as %r was accepted; %s" % (name, target, first, second, who_won(r.get("tab"), info)),
                  what="duplicate_accepted", op=name)
  else:
    ctx.violation("duplicate_internal_error", "operator %s (target %s): %s in %s: %s" % (name, target, r["exc"], r["func"], r["msg"]),
                  what="duplicate_internal_error", op=name, exc=r["exc"], func=r["func"])
