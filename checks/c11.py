"""C11 - any two of nr/dr/cutoff (nrho/drho/cutoff_rho) fix the grid actually tabulated (DESIGN.md section 4, C11)."""
import io
import random
from decimal import Decimal
from fractions import Fraction

import monitors
import readers
import routes
from harness import exc_sig

PROPERTY_ID = "C11"
LEVEL = "exploration"
RULE = ("EXHAUSTIVE decimal lattice: step in {1..500}*1e-3 u {1..50}*1e-4 x multiple k in {1,2,3,7,10,99,100,999,1000,9999,19999} (every pair, "
        "<= 20000 rows), for the r grid and for the rho grid, each two-of-three combination (nr+dr, cutoff+nr, cutoff+dr with cutoff = k*dr "
        "written as exact decimals); rejection classes: all three given, step alone, zero / negative value in each position; defaults; plus the "
        "written table (row count, first/last r, spacing) for a seeded sample of lattice points through all 11 tabulation targets. One case = "
        "one step with all multiples; non-trivial: every case (each holds >= 11 distinct grids); distinct = canonical JSON of the case.")
ASSUMPTIONS = ["oracle: decimal.Decimal / Fraction arithmetic on the option text", "cutoff=(nr-1)*dr accepted within 2 ulp of the exact product (one float multiplication)"]
ANCHORS = ["_config_parser.py:_TabulationCutoff._init_cutoff", "_tabulation_factories.py:PairTabulationFactory.extract_cutoffs",
           "_tabulation_factories.py:EAMTabulationFactory.extract_cutoffs", "pair_tabulation.py:PairTabulation_AbstractBase.dr",
           "eam_tabulation.py:_EAMTabulationAbstractbase.drho"]
MIN_NONTRIVIAL = {"quick": 100, "thorough": 500}
MIN_COUNTERS = {"parser_executions": 20000, "contract_init_cutoff": 20000, "tables_checked": 30, "rejections_checked": 40}
EXHAUSTIVE = True
TECHNIQUE = "runtime monitoring: Decimal oracle as icontract postcondition on _TabulationCutoff._init_cutoff over an exhaustive decimal lattice; row counts and spacing read back from written tables of all targets"
LEVEL_TEXT = ("Exhaustive over the stated decimal (step, multiple) lattice for the parser (about 36000 executions per run, every two-of-three "
              "combination, both grids), with the Decimal oracle attached as a postcondition to the real _init_cutoff so that every call made "
              "during the run is judged; rejections and defaults enumerated; sampled lattice points are tabulated through all 11 targets and the "
              "written files are read back for row count, first/last point and spacing. Other step sizes are not covered.")
LEVEL_NOTE = "Trusted: decimal/fractions arithmetic; consumer-side readers for the row counts."
DESIGN_REF = "DESIGN.md section 4, C11"

KS = [1, 2, 3, 7, 10, 99, 100, 999, 1000, 9999, 19999]
PAIR_TARGETS = ["LAMMPS", "DLPOLY", "DL_POLY", "GULP", "excel"]
EAM_TARGETS = ["setfl", "lammps_eam_alloy", "setfl_fs", "DL_POLY_EAM", "DL_POLY_EAM_fs", "excel_eam", "excel_eam_fs", "eam_adp"]


def gen_cases(rng, tier):
  steps = [Decimal(i) / 1000 for i in range(1, 501)] + [Decimal(i) / 10000 for i in range(1, 51)]
  cases = [{"kind": "lattice", "step": str(s)} for s in steps]
  # the same grids in other units of length (metres: 2.5e-13; something huge): nothing may depend on the absolute size of a step
  for mant in ("1", "1.2", "2.5", "3", "7", "9.9"):
    for e in (-13, -12, -10, -7, 4, 8):
      cases.append({"kind": "lattice", "step": "%sE%d" % (mant, e), "scaled": True})
  # cutoff + step, many multiples per step: steps of up to three significant digits over four decades, every k up to 400 and
  # a sample beyond - where a quotient cutoff/step that should be whole lands an ulp or two off is a matter of the pair
  more = sorted(set([Decimal(i) / 10000 for i in range(1, 1000)] + [Decimal(i) / 100000 for i in range(10, 100)]))
  for s_ in more:
    cases.append({"kind": "quotients", "step": str(s_), "kseed": rng.randrange(1 << 30)})
  cases.append({"kind": "rejections"})
  cases.append({"kind": "defaults"})
  nt = 60 if tier == "quick" else 700
  for i in range(nt):
    s = rng.choice(steps)
    k = rng.choice([1, 2, 3, 7, 10, 99, 100, 999] + ([1000] if tier == "thorough" else []))
    target = (PAIR_TARGETS + EAM_TARGETS)[i % 13]
    if target in ("excel", "excel_eam", "excel_eam_fs"):
      k = min(k, 100)
    if target in ("DLPOLY", "DL_POLY"):
      k = rng.choice([7, 11, 99, 103, 999])
    if target == "LAMMPS":
      k = max(k, 2)   # C01's domain is nr >= 3 (nr = 2 leaves a single row; degenerate grids are C16's)
    cases.append({"kind": "table", "step": str(s), "k": k, "target": target, "combo": rng.choice(["nr_dr", "cutoff_nr", "cutoff_dr"]),
                  "step_rho": str(rng.choice(steps)), "k_rho": rng.choice([1, 2, 3, 7, 10, 99]), "combo_rho": rng.choice(["nr_dr", "cutoff_nr", "cutoff_dr"])})
  if tier in ["quick","thorough"]:
    cases.append({"kind": "suite"})   # the repository's own tests with this check's contracts armed
  return cases


_contracts = None


def oracle_cutoff(names, section):
  """Decimal oracle on the option text -> ('ok', nr, cutoff_fraction) | ('reject',) | ('none',)."""
  nr_n, dr_n, cut_n = names
  def get(n):
    v = section.get(n, None)
    return None if v is None else v.strip()
  nr_t, dr_t, cut_t = get(nr_n), get(dr_n), get(cut_n)
  try:
    nr = int(nr_t) if nr_t is not None else None
    dr = Decimal(dr_t) if dr_t is not None else None
    cut = Decimal(cut_t) if cut_t is not None else None
  except Exception:
    return ("reject",)
  for v in (nr, dr, cut):
    if v is not None and v <= 0:
      return ("reject",)
  if nr is not None and dr is not None and cut is not None:
    return ("reject",)
  if dr is not None and nr is None and cut is None:
    return ("reject",)
  if nr is not None and dr is not None:
    return ("ok", nr, Fraction(float(dr_t)) * (nr - 1), "product")
  if cut is not None and dr is not None:
    q = cut / dr
    if q == q.to_integral_value():
      return ("ok", int(q) + 1, Fraction(float(cut_t)), "exact")
    return ("ok_noncommensurate", None, Fraction(float(cut_t)), "exact")
  return ("ok", nr, None if cut is None else Fraction(float(cut_t)), "exact")


def setup_worker():
  global _contracts
  from atsim.potentials.config import _config_parser as cp
  _contracts = monitors.Contracts()
  orig = cp._TabulationCutoff._init_cutoff
  counts = _contracts.counts
  counts["init_cutoff"] = 0
  failures = _contracts.failures

  # a postcondition cannot see a raise, so the contract is a full wrapper: outcome (value or
  # ConfigParserException) versus the Decimal oracle
  def wrapped(self, section):
    counts["init_cutoff"] += 1
    names = (self._nr_attr, self._dr_attr, self._cutoff_attr)
    try:
      want = oracle_cutoff(names, section)
    except Exception as e:
      want = ("oracle-error", repr(e))
    try:
      res = orig(self, section)
    except cp.ConfigParserException as e:
      if want[0] not in ("reject", "oracle-error"):
        failures.append(("init_cutoff", "options %s rejected (%s) but the oracle accepts them: %s" % (dict((n, section.get(n)) for n in names), e, want[:2]), None))
      raise
    if want[0] == "reject":
      failures.append(("init_cutoff", "options %s accepted as nr=%r cutoff=%r but must be rejected" % (dict((n, section.get(n)) for n in names), res[0], res[1]), "accepted"))
    elif want[0] == "ok":
      nr, cutoff = res
      if want[1] is not None and nr != want[1]:
        failures.append(("init_cutoff", "options %s give nr=%r, expected %r" % (dict((n, section.get(n)) for n in names), nr, want[1]), "nr"))
      if want[2] is not None and cutoff is not None:
        exact = want[2]
        tol = Fraction(0) if want[3] == "exact" else abs(exact) * Fraction(1, 2 ** 51)
        if abs(Fraction(cutoff) - exact) > tol:
          failures.append(("init_cutoff", "options %s give cutoff=%r, expected %r" % (dict((n, section.get(n)) for n in names), cutoff, float(exact)), "cutoff"))
    return res
  cp._TabulationCutoff._init_cutoff = wrapped


def tab_of(text):
  from atsim.potentials.config import ConfigParser
  return ConfigParser(io.StringIO(text)).tabulation


def run_quotients(case, ctx):
  step = Decimal(case["step"])
  rng = random.Random(case["kseed"])
  ctx.cls("cutoff_and_step_many_multiples")
  ks = list(range(1, 401)) + sorted(set(rng.randrange(401, 20001) for _ in range(60)))
  for k in ks:
    cut = step * k
    names = ("nr", "dr", "cutoff") if k % 2 else ("nrho", "drho", "cutoff_rho")
    text = "[Tabulation]\ntarget : setfl\n%s : %s\n%s : %s\n" % (names[2], cut, names[1], step)
    ctx.count("parser_executions")
    try:
      t = tab_of(text)
      nr = t.nr if k % 2 else t.nrho
    except Exception as e:
      et, fn = exc_sig(e)
      ctx.violation("valid_rejected", "%s given with %s: step=%s k=%d: %s %s" % (names[2], names[1], step, k, et, e), what="valid_rejected", combo="cutoff_dr")
      return
    if nr != k + 1:
      ctx.violation("row_count", "%s = %s with %s = %s (multiple %d) -> %s = %r, expected %d rows" % (names[2], cut, names[1], step, k, names[0], nr, k + 1), what="row_count", combo="cutoff_dr",
                    mech="truncation" if nr == k else "other")
      return
  ctx.nontrivial(True)


def run_lattice(case, ctx):
  step = Decimal(case["step"])
  if case.get("scaled"):
    ctx.cls("lattice_in_other_length_units")
  nf0 = len(_contracts.failures)
  c0 = _contracts.counts["init_cutoff"]
  for k in KS:
    cut = step * k
    for grid, (nr_n, dr_n, cut_n) in (("r", ("nr", "dr", "cutoff")), ("rho", ("nrho", "drho", "cutoff_rho"))):
      for combo in ("nr_dr", "cutoff_nr", "cutoff_dr"):
        if combo == "nr_dr":
          body = "%s : %d\n%s : %s\n" % (nr_n, k + 1, dr_n, step)
        elif combo == "cutoff_nr":
          body = "%s : %s\n%s : %d\n" % (cut_n, cut, nr_n, k + 1)
        else:
          body = "%s : %s\n%s : %s\n" % (cut_n, cut, dr_n, step)
        text = "[Tabulation]\ntarget : setfl\n" + body
        if k % 3 == 1:
          # [Variables] entries that merely share their NAMES with grid options (the third option of this grid, all three of
          # the other): variables are not options, the two given in [Tabulation] still fix the grid (seeded change C11r10
          # read the section through a call that merges the variables in)
          third = {"nr_dr": cut_n, "cutoff_nr": dr_n, "cutoff_dr": nr_n}[combo]
          others = ("nrho", "drho", "cutoff_rho") if grid == "r" else ("nr", "dr", "cutoff")
          decoy = "[Variables]\n%s = %s\n%s = 77\n%s = 0.125\n%s = 9.625\n\n" % (third, "41" if third == nr_n else "0.375", others[0], others[1], others[2])
          text = (decoy + text) if k % 2 else (text + "\n" + decoy)
          ctx.count("variables_named_like_grid_options")
        ctx.count("parser_executions")
        try:
          t = tab_of(text)
          nr, cutoff = (t.nr, t.cutoff) if grid == "r" else (t.nrho, t.cutoff_rho)
          other = (t.nrho, t.cutoff_rho) if grid == "r" else (t.nr, t.cutoff)
        except Exception as e:
          et, fn = exc_sig(e)
          ctx.violation("valid_rejected", "%s grid %s step=%s k=%d: %s %s" % (grid, combo, step, k, et, e), what="valid_rejected", combo=combo)
          continue
        if other != (None, None):
          ctx.violation("grid_crosstalk", "%s options set the other grid: %r" % (grid, other), what="grid_crosstalk")
        if nr != k + 1:
          ctx.violation("row_count", "%s grid, %s: step=%s multiple=%d -> nr=%r, expected %d rows" % (grid, combo, step, k, nr, k + 1), what="row_count", combo=combo,
                        mech="truncation" if nr == k else "other")
        exact = Fraction(float(str(cut))) if combo != "nr_dr" else Fraction(float(str(step))) * k
        if abs(Fraction(cutoff) - exact) > abs(exact) * Fraction(1, 2 ** 51):
          ctx.violation("cutoff_value", "%s grid, %s: step=%s multiple=%d -> cutoff=%r, expected %r" % (grid, combo, step, k, cutoff, float(exact)), what="cutoff_value", combo=combo)
  ctx.nontrivial(True)
  ctx.count("contract_init_cutoff", _contracts.counts["init_cutoff"] - c0)
  seen = set()
  for cname, msg, tag in _contracts.failures[nf0:]:
    if tag in seen:
      continue
    seen.add(tag)
    ctx.violation("contract", msg, what="contract", tag=str(tag), mech="truncation" if tag == "nr" else "other")


def run_rejections(case, ctx):
  from atsim.potentials.config._common import ConfigurationException
  cls = []
  for nr_n, dr_n, cut_n in (("nr", "dr", "cutoff"), ("nrho", "drho", "cutoff_rho")):
    cls.append(("all_three", "%s : 11\n%s : 0.1\n%s : 1.0\n" % (nr_n, dr_n, cut_n)))
    cls.append(("step_alone", "%s : 0.1\n" % dr_n))
    # an option that is present but empty is not an omitted option
    cls.append(("empty_cutoff_with_nr_dr", "%s : 11\n%s : 0.1\n%s :\n" % (nr_n, dr_n, cut_n)))
    cls.append(("empty_cutoff_with_nr", "%s : 11\n%s :\n" % (nr_n, cut_n)))
    cls.append(("empty_dr_with_cutoff", "%s : 5.0\n%s :\n" % (cut_n, dr_n)))
    cls.append(("empty_nr_with_dr", "%s :\n%s : 0.1\n" % (nr_n, dr_n)))
    for zero in ("0", "-1", "-0.5", "0.0"):
      zi = zero if "." not in zero else None
      if zi is not None:
        cls.append(("nonpositive_nr_alone", "%s : %s\n" % (nr_n, zi)))
        cls.append(("nonpositive_nr_with_dr", "%s : %s\n%s : 0.1\n" % (nr_n, zi, dr_n)))
        cls.append(("nonpositive_nr_with_cutoff", "%s : %s\n%s : 1.0\n" % (nr_n, zi, cut_n)))
        cls.append(("all_three_nonpositive_nr", "%s : %s\n%s : 0.1\n%s : 1.0\n" % (nr_n, zi, dr_n, cut_n)))
      cls.append(("nonpositive_dr_with_nr", "%s : 11\n%s : %s\n" % (nr_n, dr_n, zero)))
      cls.append(("nonpositive_dr_with_cutoff", "%s : 1.0\n%s : %s\n" % (cut_n, dr_n, zero)))
      cls.append(("nonpositive_cutoff_alone", "%s : %s\n" % (cut_n, zero)))
      cls.append(("nonpositive_cutoff_with_nr", "%s : %s\n%s : 11\n" % (cut_n, zero, nr_n)))
      cls.append(("nonpositive_cutoff_with_dr", "%s : %s\n%s : 0.1\n" % (cut_n, zero, dr_n)))
      cls.append(("all_three_nonpositive_cutoff", "%s : 11\n%s : 0.1\n%s : %s\n" % (nr_n, dr_n, cut_n, zero)))
      cls.append(("all_three_nonpositive_dr", "%s : 11\n%s : %s\n%s : 1.0\n" % (nr_n, dr_n, zero, cut_n)))
  for name, body in cls:
    text = "[Tabulation]\ntarget : setfl\n" + body
    ctx.count("rejections_checked")
    ctx.cls("reject:" + name)
    try:
      t = tab_of(text)
    except ConfigurationException:
      continue
    except Exception as e:
      et, fn = exc_sig(e)
      ctx.violation("reject_internal_error", "%s: %r -> %s %s" % (name, body, et, e), what="reject_internal_error", cls=name)
      continue
    ctx.violation("not_rejected", "%s: options %r accepted as nr=%r cutoff=%r nrho=%r cutoff_rho=%r" % (name, body, t.nr, t.cutoff, t.nrho, t.cutoff_rho),
                  what="not_rejected", cls=name.split("_nonpositive")[0] if name.startswith("all_three") else name)
  ctx.nontrivial(True)


def run_defaults(case, ctx):
  base = "[Pair]\nAl-Al : as.constant 1.0\n\n[EAM-Embed]\nAl : as.constant 1.0\n\n[EAM-Density]\nAl : as.constant 1.0\n\n[EAM-ADP-Dipole]\nAl-Al : as.constant 1.0\n\n[EAM-ADP-Quadrupole]\nAl-Al : as.constant 1.0\n"
  for target in PAIR_TARGETS + EAM_TARGETS:
    dens = base.replace("[EAM-Density]\nAl :", "[EAM-Density]\nAl->Al :") if target.endswith("_fs") else base
    for opts, want in (("", (10.0, 1001, 100.0, 1001)), ("nr : 12\n", (10.0, 12, 100.0, 1001)), ("cutoff : 3.5\n", (3.5, 1001, 100.0, 1001)),
                       ("nrho : 7\n", (10.0, 1001, 100.0, 7)), ("cutoff_rho : 2.5\n", (10.0, 1001, 2.5, 1001))):
      text = "[Tabulation]\ntarget : %s\n%s\n%s" % (target, opts, dens)
      try:
        tab = routes.read_config(text)
      except Exception as e:
        et, fn = exc_sig(e)
        if target in ("DLPOLY", "DL_POLY") and "divisible by 4" in str(e) and want[1] == 1001:
          # the documented default row count is not one this target accepts: recorded as a known finding
          ctx.cls("default_nr_1001_refused_by_DL_POLY")
          ctx.violation("defaults_exception", "target %s with nr omitted: the documented default nr = 1001 is refused (%s)" % (target, str(e)[:120]), what="defaults_exception", mech="dlpoly_default_nr_1001")
          continue
        ctx.violation("defaults_exception", "target %s opts %r: %s %s" % (target, opts, et, e), what="defaults_exception")
        continue
      got = (tab.cutoff, tab.nr) + ((tab.cutoff_rho, tab.nrho) if target in EAM_TARGETS else (want[2], want[3]))
      ctx.count("defaults_checked")
      if got != want:
        ctx.violation("defaults", "target %s opts %r: (cutoff, nr, cutoff_rho, nrho) = %r, documented %r" % (target, opts, got, want), what="defaults")
  # history: a model WITHOUT a [Tabulation] section (or with an empty one) read after a model with an explicit grid
  # must still get the documented defaults (and the default target LAMMPS)
  pair_only = "[Pair]\nAl-Al : as.constant 1.0\n"
  for prev in ("nr : 12\ncutoff : 3.0\n", "dr : 0.01\ncutoff : 2.0\nnrho : 5\ncutoff_rho : 7.0\n", None):
    for empty in ("", "[Tabulation]\n\n", "[Tabulation]\ntarget : GULP\n\n"):
      try:
        if prev is not None:
          routes.read_config("[Tabulation]\ntarget : LAMMPS\n%s\n%s" % (prev, pair_only))
        tab = routes.read_config(empty + pair_only)
      except Exception as e:
        et, fn = exc_sig(e)
        ctx.violation("defaults_exception", "model without tabulation options: %s %s" % (et, e), what="defaults_exception")
        continue
      ctx.count("defaults_checked")
      ctx.cls("defaults_after_other_model" if prev else "defaults_first_model")
      if (tab.cutoff, tab.nr) != (10.0, 1001):
        ctx.violation("defaults", "model with %s read after a model with '%s': (cutoff, nr) = %r, documented defaults (10.0, 1001)" % (
          "no [Tabulation] section" if not empty else "a [Tabulation] section without grid options", (prev or "").replace("\n", "; "), (tab.cutoff, tab.nr)), what="defaults", mech="history")
  ctx.nontrivial(True)


def grid_opts(names, step, k, combo):
  nr_n, dr_n, cut_n = names
  cut = Decimal(step) * k
  if combo == "nr_dr":
    return "%s : %d\n%s : %s\n" % (nr_n, k + 1, dr_n, step)
  if combo == "cutoff_nr":
    return "%s : %s\n%s : %d\n" % (cut_n, cut, nr_n, k + 1)
  return "%s : %s\n%s : %s\n" % (cut_n, cut, dr_n, step)


def run_table(case, ctx):
  target = case["target"]
  step, k = case["step"], case["k"]
  nr = k + 1
  cutoff = float(Decimal(step) * k)
  ctx.cls("target:" + target)
  ctx.cls("combo:" + case["combo"])
  body = grid_opts(("nr", "dr", "cutoff"), step, k, case["combo"])
  eam = target in EAM_TARGETS
  nrho = case["k_rho"] + 1
  cut_rho = float(Decimal(case["step_rho"]) * case["k_rho"])
  if eam:
    body += grid_opts(("nrho", "drho", "cutoff_rho"), case["step_rho"], case["k_rho"], case["combo_rho"])
  fs = target.endswith("_fs")
  text = "[Tabulation]\ntarget : %s\n%s\n[Pair]\nAl-Al : as.polynomial 1.0 1.0\n" % (target, body)
  if eam:
    text += "\n[EAM-Embed]\nAl : as.polynomial 2.0 1.0\n\n[EAM-Density]\n%s : as.polynomial 3.0 1.0\n" % ("Al->Al" if fs else "Al")
  if target == "eam_adp":
    text += "\n[EAM-ADP-Dipole]\nAl-Al : as.polynomial 4.0 1.0\n\n[EAM-ADP-Quadrupole]\nAl-Al : as.polynomial 5.0 1.0\n"
  if target in ("DLPOLY", "DL_POLY") and nr % 4:
    return
  try:
    tab = routes.read_config(text)
    data = routes.write_tab(tab)
  except Exception as e:
    et, fn = exc_sig(e)
    ctx.violation("table_exception", "target %s step=%s k=%d: %s %s" % (target, step, k, et, e), what="table_exception", mech="truncation" if "divisible" in str(e) else "other")
    return
  ctx.count("tables_checked")
  dr = cutoff / (nr - 1)
  drho = cut_rho / (nrho - 1)

  def expect(name, got, want, tol=0.0):
    if not (abs(got - want) <= tol):
      ctx.violation("table_grid", "target %s (%s step=%s k=%d): %s = %r, expected %r" % (target, case["combo"], step, k, name, got, want), what="table_grid", field=name.split("[")[0],
                    mech="truncation" if name in ("rows", "Nr", "n") and got == want - 1 else "other")

  try:
    if target == "LAMMPS":
      sec = readers.read_lammps_table(data)[0]
      expect("rows", len(sec["rows"]), nr - 1)
      expect("first r", float(sec["rows"][0][1]), dr, 1e-8)
      expect("last r", float(sec["rows"][-1][1]), cutoff, 1e-8)
      if nr > 2:
        expect("spacing", float(sec["rows"][1][1]) - float(sec["rows"][0][1]), dr, 2.1e-8)
    elif target in ("DLPOLY", "DL_POLY"):
      t = readers.read_dlpoly_table(data)
      expect("rows", t["ngrid"], nr)
      expect("cutpot", t["cutpot"], cutoff, 1e-8 * cutoff + 1e-12)
      expect("delpot", t["delpot"], cutoff / (nr - 4), 1e-8 * cutoff)
    elif target == "GULP":
      g = readers.read_gulp(data)[0]
      expect("rows", len(g["rows"]), nr)
      expect("first r", float(g["rows"][0][1]), 0.0)
      expect("last r", float(g["rows"][-1][1]), cutoff, 1e-9)
      expect("spacing", float(g["rows"][1][1]) - float(g["rows"][0][1]), dr, 2e-10)
    elif target in ("excel", "excel_eam", "excel_eam_fs"):
      wb = readers.read_xlsx(data)
      rows = wb["sheets"]["Pair"]
      expect("rows", len(rows) - 1, nr)
      expect("last r", rows[-1][0], cutoff, 1e-12 * cutoff)
      expect("spacing", rows[2][0] - rows[1][0], dr, 1e-12)
      if eam:
        er = wb["sheets"]["EAM-Embed"]
        expect("rho rows", len(er) - 1, nrho)
        expect("last rho", er[-1][0], cut_rho, 1e-12 * cut_rho)
        dn = wb["sheets"]["EAM-Density"]
        expect("density rows", len(dn) - 1, nr)
    elif target in ("setfl", "lammps_eam_alloy", "setfl_fs", "eam_adp"):
      p = readers.read_setfl(data, fs=fs, adp=(target == "eam_adp"))
      expect("Nr", p["nr"], nr)
      expect("Nrho", p["nrho"], nrho)
      expect("dr", float(p["dr"]), dr, 1e-15 * max(1, dr))
      expect("drho", float(p["drho"]), drho, 1e-15 * max(1, drho))
      # last tabulated points: F(rho) = 2+rho, rho(r) = 3+r -> read the grid back from the values
      F = p["elements"][0]["F"]
      expect("last rho", float(F[-1]) - 2.0, cut_rho, 1e-9 * max(1.0, cut_rho))
      rho = p["elements"][0]["rho"][0] if fs else p["elements"][0]["rho"]
      expect("last r", float(rho[-1]) - 3.0, cutoff, 1e-9 * max(1.0, cutoff))
    else:
      p = readers.read_tabeam(data)
      for b in p["blocks"]:
        if b["kw"] == "embe":
          expect("n[embe]", b["n"], nrho)
          expect("end[embe]", float(b["end_tok"]), cut_rho, 6e-7)
          expect("last rho", float(b["values"][-1]) - 2.0, cut_rho, 6e-7)
        else:
          expect("n", b["n"], nr)
          expect("end", float(b["end_tok"]), cutoff, 6e-7)
        if b["kw"] == "dens":
          expect("last r", float(b["values"][-1]) - 3.0, cutoff, 6e-7)
  except readers.FormatError as e:
    ctx.violation("table_format", "target %s: %s" % (target, e), what="table_format")
  ctx.nontrivial(True)


def run_case(case, ctx):
  if case.get("kind") == "suite":
    import suite_contracts
    ctx.cls("kind:suite_with_contracts")
    return suite_contracts.run_suite(ctx, 'c11', ['init_cutoff'])
  ctx.cls("kind:" + case["kind"])
  return {"lattice": run_lattice, "rejections": run_rejections, "defaults": run_defaults, "table": run_table, "quotients": run_quotients}[case["kind"]](case, ctx)
