"""C07 - offered first/second derivatives are the true derivatives of the energy (DESIGN.md section 4, C07)."""
import random

import mpmath as mp

import emit
import monitors
import oracle
import readers
import refmodel as R
import routes
import spec
from harness import exc_sig

PROPERTY_ID = "C07"
LEVEL = "exploration"
RULE = ("seeded random expression trees to depth 3 over the built-in forms and plus/product/pow (API) or sum()/product()/pow()/trans()/"
        "spline() (potable), multi-range, buck4, table forms, custom formulas and Python callables with/without .deriv; separations from 0 "
        "(only when every component is regular there) to 30, at least 1e-3 away from every range start, detach/attach/r_min and table "
        "end; plus per-form sweeps of every built-in form's .deriv/.deriv2 incl. heavy-element ZBL at large r and r = 0 for regular forms. "
        "Non-trivial: tree with >= 2 leaves (or a single-form sweep) whose reference first derivative is non-zero at a sampled r; "
        "distinct = canonical JSON of the tree.")
ASSUMPTIONS = ["reference derivative = mpmath.diff (orders 1, 2) of the 40-digit reference value of the same expression, with piecewise selections frozen at r",
               "all-analytic trees: tolerance 1e-8*local magnitude of the derivative + 1e-13*sum|terms|; trees with a component lacking .deriv: "
               "plus the central-difference slack 64uM/h (+256uM/h^2 for nested differences), loose but sound",
               "pow bases are kept positive (log a)"]
ANCHORS = ["__init__.py:plus", "__init__.py:product", "__init__.py:pow", "_util.py:_GradientWrapper.__call__", "_util.py:num_deriv",
           "_multi_range_potential_form.py:Multi_Range_Potential_Form_Deriv.deriv", "spline/__init__.py:Custom_SplinePotential._deriv",
           "spline/__init__.py:Custom_SplinePotential._deriv2", "_modifiers.py:trans", "tableforms.py:Cubic_Spline_Table_Form.deriv2"]
MIN_NONTRIVIAL = {"quick": 60, "thorough": 800}
MIN_COUNTERS = {"deriv_compared": 1500, "deriv2_compared": 1000, "locality_events_checked": 1000}
TECHNIQUE = "runtime monitoring: mpmath.diff of an independent reference vs the offered .deriv/.deriv2; fallback-locality spy trace on every leaf"
LEVEL_TEXT = ("Exploration: expression trees are built through the Python API and through potable text; at sampled separations the offered .deriv "
              "and .deriv2 are compared with mpmath derivatives of an independent 40-digit reference of the same expression; hasattr(x,'deriv') "
              "must follow the documented rule; recording spies on every leaf show that numerical differencing only ever touches leaves that "
              "lack an analytic derivative; tabulated forces are compared with the slope of the tabulated energies.")
LEVEL_NOTE = "Trusted: mpmath.diff, my transcription of the documented formulas, scipy FITPACK for table forms."
DESIGN_REF = "DESIGN.md section 4, C07"

REG0 = ("bornmayer", "constant", "morse", "polynomial", "zero", "exp_spline")
ALLFORMS = ["buck", "bornmayer", "coul", "constant", "exponential", "hbnd", "lj", "morse", "polynomial", "sqrt", "tang_toennies", "zbl", "zero", "exp_spline"]


def regular_at_zero(node):
  k = node["k"]
  if k == "form":
    return node["name"] in REG0
  if k in ("sum", "product", "pow"):
    return all(regular_at_zero(a) for a in node["a"])
  if k == "ranges":
    return all(regular_at_zero(s) for _, _, s in node["parts"])
  if k == "py":
    return True
  return False


def leaves(node, out=None):
  if out is None:
    out = []
  k = node["k"]
  if k in ("sum", "product", "pow"):
    for a in node["a"]:
      leaves(a, out)
  elif k == "trans":
    leaves(node["f"], out)
  elif k == "ranges":
    for _, _, s in node["parts"]:
      leaves(s, out)
  elif k == "spline":
    leaves(node["start"], out)
    leaves(node["end"], out)
  else:
    out.append(node)
  return out


def gen_cases(rng, tier):
  cases = []
  n = 170 if tier == "quick" else 2500
  for i in range(n):
    route = "api" if i % 2 == 0 else "potable"
    tables = [spec.gen_table(rng, spec.ident(rng, set(), (3, 6)), lo=rng.choice([0.0, 0.4]))] if rng.random() < 0.3 else []
    forms = spec.gen_custom_forms(rng, rng.choice([1, 2]), tables=tables) if (route == "potable" and rng.random() < 0.35) else []
    depth = rng.choice([1, 2, 2, 3])
    node = spec.gen_node(rng, depth, route, forms=forms, tables=tables, rmax=1.0)
    rs = [round(rng.uniform(0.05, 30.0), rng.choice([2, 3, 4])) for _ in range(9)] + [rng.choice([0.3, 0.8, 1.3, 2.2]), 30.0]
    if regular_at_zero(node):
      rs.append(0.0)
    cases.append({"kind": "tree", "route": route, "node": node, "forms": forms, "tables": tables, "rs": sorted(set(rs))})
  # mixed trees: one analytic leaf combined with a callable that offers no (or only a first) derivative -
  # the class where the numerical fallback must stay local to the component that needs it
  nm = 24 if tier == "quick" else 300
  for i in range(nm):
    op = ["sum", "product", "pow"][i % 3]
    ana = spec.gen_node(rng, 1, "api", positive=(op == "pow"), kinds=["form", "sum", "product"], rmax=1.0)
    num = spec.gen_py(rng, force=i % 2)
    if op == "pow":
      node = {"k": "pow", "a": [ana, {"k": "sum", "a": [num, {"k": "form", "name": "constant", "p": [0.0]}]}]} if False else {"k": "pow", "a": [ana, {"k": "py", "expr": ["*", ["num", 0.1], ["var", "r"]], "d1": None, "d2": None}]}
    else:
      node = {"k": op, "a": [ana, num] if i % 4 < 2 else [num, ana]}
    if i % 5 == 0:
      node = {"k": "ranges", "parts": [[">", 0.0, node], [">=", 7.5, spec.gen_form(rng, rmax=1.0)]]}
    rs = [round(rng.uniform(0.3, 12.0), 3) for _ in range(6)]
    cases.append({"kind": "tree", "route": "api", "node": node, "forms": [], "tables": [], "rs": sorted(set(rs)), "mixed": True})
  # stationary points: r where the slope of a component is EXACTLY zero (morse at r*, the vertex of a parabola, an even
  # power at 0) - the places where a derivative formula that branches on "slope == 0" would take its other branch
  ns = 18 if tier == "quick" else 200
  for i in range(ns):
    rstar = rng.choice([0.5, 1.0, 1.5, 2.0, 2.5, 3.0])
    stat = rng.choice([{"k": "form", "name": "morse", "p": [spec.rfloat(rng, 0.5, 2.0), rstar, spec.rfloat(rng, 0.1, 1.5)]},
                       {"k": "form", "name": "polynomial", "p": [spec.rfloat(rng, 1.0, 5.0), -2.0 * rstar, 1.0]},
                       {"k": "form", "name": "polynomial", "p": [spec.rfloat(rng, 0.5, 2.0), -4.0 * rstar, 2.0]}])
    other = spec.gen_node(rng, 1, "api", positive=True, kinds=["form", "sum", "product"], rmax=1.0)
    op = ["pow_exponent", "pow_base", "product", "sum", "trans"][i % 5]
    route = "api"
    if op == "pow_exponent":
      node = {"k": "pow", "a": [other, stat]}
    elif op == "pow_base":
      node = {"k": "pow", "a": [{"k": "sum", "a": [stat, {"k": "form", "name": "constant", "p": [30.0]}]}, {"k": "form", "name": "polynomial", "p": [0.5, 0.1]}]}
    elif op == "trans":
      node = {"k": "trans", "f": {"k": "product", "a": [other, stat]}, "x": 0.5}
      route = "potable"
      rstar = rstar - 0.5
    else:
      node = {"k": op, "a": [other, stat] if i % 2 else [stat, other]}
    if i % 3 == 0 and route == "api":
      route = "potable"
    rs = sorted(set([rstar, rstar + 0.25, max(0.05, rstar - 0.25), 4.5]))
    cases.append({"kind": "tree", "route": route, "node": node, "forms": [], "tables": [], "rs": [r for r in rs if r > 0], "stationary": True})
  # a factor / term that is EXACTLY zero at the evaluated separation while its slope is not (lj at sigma, a polynomial
  # at its root): where a product rule that short-cuts "factor == 0" goes wrong
  nz = 16 if tier == "quick" else 160
  for i in range(nz):
    r0 = rng.choice([0.5, 1.0, 1.5, 2.0, 2.5, 3.0, 0.75, 4.0])
    node, rv = spec.root_node(rng, r0, spec.ROOT_VARIANTS[i % len(spec.ROOT_VARIANTS)])
    wrap = (i // 8) % 3
    if wrap == 1:
      node = {"k": "sum", "a": [node, spec.gen_form(rng, rmax=1.0)]}
    elif wrap == 2:
      # the zero sits in the EXPONENT (the base of pow() must stay positive: its derivative uses log(base))
      node = {"k": "pow", "a": [spec.gen_form(rng, positive=True), {"k": "product", "a": [node, {"k": "form", "name": "constant", "p": [0.001]}]}]}
    route = "potable" if i % 3 == 0 else "api"
    cases.append({"kind": "tree", "route": route, "node": node, "forms": [], "tables": [], "rs": sorted(set([r0, r0 + 0.25, r0 * 0.5])), "zero_factor": rv})
  # pow() with small whole-number exponents given as int and as float (0, 1, 2, 3, -1): the degenerate cases of the
  # power rule (exponent 0: constant, exponent 1: the base itself) must still offer the base's own derivatives
  ni = 20 if tier == "quick" else 200
  for i in range(ni):
    n_ = [0, 1, 2, 3, -1, 1.0, 0.0, 2.0, -1.0, 1][i % 10]
    base = spec.gen_node(rng, 1, "api", positive=True, kinds=["form", "sum", "product"], rmax=1.0)
    if i % 3 == 0:
      base = {"k": "form", "name": "morse", "p": [spec.rfloat(rng, 0.5, 1.5), spec.rfloat(rng, 1.0, 2.0), spec.rfloat(rng, 0.5, 2.0)]}
      base = {"k": "sum", "a": [base, {"k": "form", "name": "constant", "p": [5.0]}]}
    node = {"k": "pow", "a": [base, {"k": "form", "name": "constant", "p": [n_]}]}
    w = (i // 10) % 3
    if w == 1:
      node = {"k": "product", "a": [node, spec.gen_form(rng, positive=True)]}
    elif w == 2:
      node = {"k": "sum", "a": [spec.gen_form(rng, rmax=1.0), node]}
    rs = sorted(set(round(rng.uniform(0.4, 5.0), 3) for _ in range(5)))
    cases.append({"kind": "tree", "route": "potable" if i % 2 else "api", "node": node, "forms": [], "tables": [], "rs": rs, "int_exponent": repr(n_)})
  # pow() with a CONSTANT whole-number exponent and a base that is negative or exactly zero at the evaluated separation
  # (the manual's own first pow() example squares a negative sum; a harmonic well is pow(as.polynomial -2 1, as.constant 2)):
  # the energy is well defined there, so the offered derivatives must be its derivatives
  nn = 18 if tier == "quick" else 180
  for i in range(nn):
    r0 = rng.choice([1.0, 1.5, 2.0, 2.5])
    c = rng.choice([1.0, 2.0, -0.5])
    base = {"k": "form", "name": "polynomial", "p": [-c * r0, c]}
    if i % 3 == 1:
      base = {"k": "sum", "a": [{"k": "form", "name": "constant", "p": [-1.0]}, {"k": "form", "name": "polynomial", "p": [0.0, 0.3]}]}
      r0 = 1.0 / 0.3
    elif i % 3 == 2:
      base = {"k": "sum", "a": [{"k": "form", "name": "morse", "p": [spec.rfloat(rng, 0.5, 1.5), r0, spec.rfloat(rng, 0.5, 2.0)]}, {"k": "form", "name": "constant", "p": [0.2]}]}
    n_ = [2, 3, 2.0, 1, 4, 3.0][i % 6]
    node = {"k": "pow", "a": [base, {"k": "form", "name": "constant", "p": [n_]}]}
    if (i // 6) % 3 == 1:
      node = {"k": "sum", "a": [node, spec.gen_form(rng, rmax=1.0)]}
    elif (i // 6) % 3 == 2:
      node = {"k": "product", "a": [spec.gen_form(rng, positive=True), node]}
    rs = sorted(set([round(r0, 12), round(r0 * 0.5, 6), round(r0 * 1.5, 6), round(r0 + 0.25, 6), max(0.1, round(r0 - 0.25, 6))]))
    cases.append({"kind": "tree", "route": "potable" if i % 2 else "api", "node": node, "forms": [], "tables": [], "rs": rs, "nonpositive_base": repr(n_)})
  # pow() whose base is TINY but not zero where it is evaluated (a repulsion that has decayed to 1e-13 .. 1e-30, an energy in
  # Joules) under a small positive exponent: the power is of ordinary size there and slopes, so "the base is switched off
  # here" may only ever mean exactly zero (seeded change C07r10 compared with an absolute tolerance of 1e-12)
  for i in range(12 if tier == "quick" else 120):
    e_ = [0.1, 0.05, 0.2, 0.125][i % 4]
    if i % 3 == 0:
      base = {"k": "form", "name": "bornmayer", "p": [spec.rfloat(rng, 500.0, 2000.0, 1), spec.rfloat(rng, 0.25, 0.35, 3)]}
      rs = [10.5, 12.0, 15.0, 20.0]
    elif i % 3 == 1:
      base = {"k": "product", "a": [{"k": "form", "name": "constant", "p": [10.0 ** -rng.choice([13, 15, 19, 25])]},
                                    {"k": "form", "name": "polynomial", "p": [1.0, spec.rfloat(rng, 0.2, 0.8, 2)]}]}
      rs = [0.5, 1.0, 2.5, 6.0]
    else:
      base = {"k": "form", "name": "buck", "p": [spec.rfloat(rng, 500.0, 2000.0, 1), spec.rfloat(rng, 0.25, 0.35, 3), 0.0]}
      rs = [11.0, 13.0, 17.5]
    node = {"k": "pow", "a": [base, {"k": "form", "name": "constant", "p": [e_]}]}
    w = (i // 4) % 3
    if w == 1:
      node = {"k": "sum", "a": [node, spec.gen_form(rng, rmax=1.0)]}
    elif w == 2:
      node = {"k": "product", "a": [{"k": "form", "name": "constant", "p": [spec.rfloat(rng, 0.5, 2.0)]}, node]}
    cases.append({"kind": "tree", "route": "potable" if i % 2 else "api", "node": node, "forms": [], "tables": [], "rs": rs, "tiny_base": repr(e_)})
  # NEGATIVE arguments (what an inner definition sees under trans() with a negative shift, or a callable evaluated left of the
  # origin): a component without an analytic derivative is differenced there as anywhere else, both stencil points left of 0
  for i in range(10 if tier == "quick" else 80):
    num = {"k": "py", "expr": ["+", ["*", ["num", spec.rfloat(rng, 0.05, 0.5)], ["*", ["var", "r"], ["var", "r"]]], ["*", ["num", spec.rfloat(rng, -1.0, 1.0)], ["var", "r"]]], "d1": None, "d2": None}
    ana = {"k": "form", "name": "polynomial", "p": [spec.rfloat(rng, -2.0, 2.0), spec.rfloat(rng, -1.0, 1.0), spec.rfloat(rng, 0.01, 0.2)]}
    node = {"k": ["sum", "product"][i % 2], "a": [ana, num] if i % 4 < 2 else [num, ana]}
    rs = sorted(set([-round(rng.uniform(0.5, 9.0), 3) for _ in range(5)] + [-1e-3, round(rng.uniform(0.5, 3.0), 3)]))
    cases.append({"kind": "tree", "route": "api", "node": node, "forms": [], "tables": [], "rs": rs, "mixed": True, "negative_arguments": 1})
  # pow() whose base is identically ZERO over a stretch (a multi-range base switched off beyond r0, as.zero): with a
  # positive exponent - constant and fractional, or itself a function of r - the energy is the constant 0 there, so the
  # offered derivatives are 0 (not 0 * 0**-0.5, not log(0))
  for i in range(12 if tier == "quick" else 90):
    r0 = rng.choice([1.5, 2.0, 2.5])
    base = {"k": "ranges", "parts": [[">", 0.0, {"k": "form", "name": "polynomial", "p": [4.0, -1.0, 0.05]}], [">=", r0, {"k": "form", "name": "zero", "p": []}]]}
    if i % 4 == 3:
      base = {"k": "form", "name": "zero", "p": []}
    expo = [{"k": "form", "name": "constant", "p": [0.5]}, {"k": "form", "name": "constant", "p": [1.5]}, {"k": "form", "name": "polynomial", "p": [1.0, 1.0]},
            {"k": "form", "name": "constant", "p": [2.5]}, {"k": "form", "name": "polynomial", "p": [0.5, 0.25]}, {"k": "form", "name": "constant", "p": [0.25]}][i % 6]
    node = {"k": "pow", "a": [base, expo]}
    if (i // 6) % 2 == 1:
      node = {"k": "sum", "a": [node, spec.gen_form(rng, rmax=1.0)]}
    rs = sorted(set([round(r0 + 0.25, 6), round(r0 + 1.0, 6), round(r0 * 2, 6), 0.5, 1.0]))
    cases.append({"kind": "tree", "route": "potable" if i % 2 else "api", "node": node, "forms": [], "tables": [], "rs": rs, "zero_base_stretch": 1})
  # per-form sweeps (incl. heavy ZBL at large r and r = 0 for regular forms)
  per = 4 if tier == "quick" else 40
  for name in ALLFORMS:
    for k in range(per):
      p = spec.gen_form_params(rng, name, rmax=1.0)
      if name == "zbl" and k == 0:
        p = [92, 92]
      if name == "exponential" and k == 0:
        p = [2.5, rng.choice([0, 1])]
      rs = [round(rng.uniform(0.05, 30.0), 3) for _ in range(8)] + [15.0, 30.0]
      if name in REG0 or name == "exponential":
        rs.append(0.0)
      cases.append({"kind": "form", "route": "api", "node": {"k": "form", "name": name, "p": p}, "forms": [], "tables": [], "rs": sorted(set(rs))})
  # tabulated force vs slope of tabulated energy
  nt = 12 if tier == "quick" else 120
  for i in range(nt):
    node = spec.gen_node(rng, 2, "api", kinds=["form", "sum", "product"], rmax=6.0)
    cases.append({"kind": "table_slope", "route": "api", "node": node, "forms": [], "tables": [], "rs": [], "cutoff": rng.choice([4.0, 6.0]), "nr": rng.choice([401, 601])})
  return cases


def build(case, log):
  node = case["node"]
  if case["route"] == "api":
    counter = [0]

    def leafwrap(f, n):
      counter[0] += 1
      n["_leaf"] = counter[0]
      return monitors.Spy(f, counter[0], log)
    f = emit.api_callable(node, case["tables"], leafwrap=leafwrap)
    return f, node
  model = {"target": "LAMMPS", "tab": {"nr": 5, "cutoff": 2.0}, "forms": case["forms"], "tables": case["tables"], "pair": [["A", "B", node]]}
  tab = routes.read_config(emit.model_text(model))
  return tab.potentials[0].potentialFunction, spec.wrap_potable(node)


def check_locality(ctx, case, log, r, order, start_idx):
  """During X.deriv(r) / X.deriv2(r): a leaf that offers the analytic derivative of that
  order must not have lower-order quantities evaluated away from r (i.e. must not be
  numerically differenced)."""
  info = {n["_leaf"]: n for n in leaves(case["node"]) if "_leaf" in n}
  for name, kind, x in log.events[start_idx:]:
    n = info.get(name)
    if n is None:
      continue
    ctx.count("locality_events_checked")
    has1 = spec.has_deriv(n, 1)
    has2 = spec.has_deriv(n, 2)
    moved = abs(x - r) > 1e-9 * max(1.0, abs(r))
    if not moved:
      continue
    # order 1: a leaf with .deriv is never differenced.  order 2: a leaf with .deriv2 is never
    # differenced; a leaf that only has .deriv may legitimately be touched away from r, because the
    # nearest enclosing combination then has no .deriv2 either and is differenced as a whole.
    if kind == "call" and ((order == 1 and has1) or (order == 2 and has2)):
      ctx.violation("fallback_locality", "during deriv%s(%r) leaf %s (offers .deriv) had its energy evaluated at %r" % ("" if order == 1 else "2", r, n.get("name", n["k"]), x), what="fallback_locality")
      return False
    if kind == "deriv" and has2:
      ctx.violation("fallback_locality", "during deriv2(%r) leaf %s (offers .deriv2) had .deriv evaluated at %r" % (r, n.get("name", n["k"]), x), what="fallback_locality")
      return False
  return True


def run_table_slope(case, ctx):
  M = R.Model()
  node = case["node"]
  o = oracle.ValueOracle(M, node, True)
  cutoff, nr = case["cutoff"], case["nr"]
  model = {"target": "LAMMPS", "tab": {"nr": nr, "cutoff": cutoff}, "forms": [], "tables": [], "pair": [["A", "B", node]]}
  try:
    text = routes.write_tab(routes.pair_tab_api(model))
    sec = readers.read_lammps_table(text)[0]
  except Exception as e:
    et, fn = exc_sig(e)
    ctx.violation("exception", "tabulation failed: %s %s" % (et, e), what="exception", exc=et, func=fn)
    return
  rows = sec["rows"]
  dr = cutoff / (nr - 1)
  nz = False
  for i in range(len(rows) // 3, len(rows) - 1, 7):
    r = float(rows[i][1])
    E0, E2 = float(rows[i - 1][2]), float(rows[i + 1][2])
    Fi = float(rows[i][3])
    try:
      d3 = abs(o.deriv(R.F(r), 3))
      sc = o.dscale(R.F(r))
    except Exception:
      continue
    if sc > mp.mpf("1e12"):
      continue
    bound = float(d3) * dr * dr / 6 * 1.5 + 2e-8 / dr + 1e-8 + 1e-7 * float(sc)
    ctx.count("table_slope_rows")
    if abs(Fi) > 1e-6:
      nz = True
    if not (abs(Fi + (E2 - E0) / (2 * dr)) <= bound):
      ctx.violation("table_force_vs_slope", "row %s r=%s: force %r vs -(E[i+1]-E[i-1])/(2dr) = %r (bound %.3g)" % (rows[i][0], rows[i][1], Fi, -(E2 - E0) / (2 * dr), bound), what="table_force_vs_slope")
      return
  ctx.nontrivial(nz)


def run_case(case, ctx):
  ctx.cls("kind:" + case["kind"])
  ctx.cls("route:" + case["route"])
  if case["kind"] == "table_slope":
    return run_table_slope(case, ctx)
  M = R.Model(case["forms"], case["tables"])
  log = monitors.EventLog()
  try:
    f, refnode = build(case, log)
  except Exception as e:
    et, fn = exc_sig(e)
    ctx.violation("exception", "could not build expression: %s %s" % (et, e), what="exception", exc=et, func=fn, stage="build")
    return
  node = case["node"]
  for k in spec.node_kinds(node):
    ctx.cls("node:" + k)
  o = oracle.ValueOracle(M, refnode, analytic=spec.all_analytic(node))
  ctx.cls("all_analytic" if o.analytic else "has_numeric_component")
  if case.get("nonpositive_base"):
    ctx.cls("pow_constant_exponent_nonpositive_base:" + case["nonpositive_base"])
  if case.get("negative_arguments"):
    ctx.cls("negative_arguments_numeric_fallback")
  if case.get("zero_base_stretch"):
    ctx.cls("pow_base_identically_zero_over_a_stretch")
  if case.get("int_exponent"):
    ctx.cls("pow_whole_number_exponent:" + case["int_exponent"])
  if case.get("zero_factor"):
    ctx.cls("evaluated_at_exact_root_of_a_component")
    ctx.cls("root:" + case["zero_factor"])
  if case.get("stationary"):
    ctx.cls("evaluated_at_exact_stationary_point_of_a_component")
  # documented hasattr rule
  for order, attr in ((1, "deriv"), (2, "deriv2")):
    want = spec.has_deriv(node, order)
    if hasattr(f, attr) != want:
      ctx.violation("hasattr_rule", "hasattr(x, %r) is %s, documented rule gives %s" % (attr, hasattr(f, attr), want), what="hasattr_rule")
  nz = False
  nleaves = len(leaves(node))
  for r in case["rs"]:
    if oracle.near_break(r, o.breaks, eps=1e-3):
      ctx.count("points_skipped_near_breakpoint")
      continue
    rr = R.F(r)
    try:
      v = o.value(rr)
      d1 = o.deriv(rr, 1)
      d2 = o.deriv(rr, 2)
      if max(abs(v), abs(d1), abs(d2)) > mp.mpf("1e150") or o.m.max_submag(o.node, rr) > mp.mpf("1e250"):
        ctx.count("out_of_domain_points")    # (a factor beyond the range of doubles, even when another factor is zero)
        continue
      if o.underflows(rr):
        ctx.count("underflow_domain_points")   # an intermediate below ~1e-308 is flushed to zero by doubles
        continue
      vs, m = o.vscale(rr), o.mag(rr)
      if m == mp.mpf("inf"):
        raise R.RefDomainError("no magnitude bound at this point")
      s1, s2 = o.dscale(rr, 1), o.dscale(rr, 2)
    except (R.RefDomainError, ZeroDivisionError, ValueError, OverflowError):
      ctx.count("out_of_domain_points")
      continue
    try:
      got = f(r)
    except Exception as e:
      et, fn = exc_sig(e)
      ctx.violation("exception", "energy raised at r=%r: %s %s" % (r, et, e), what="exception", exc=et, func=fn, stage="energy")
      continue
    ok, diff, tol = R.close(got, v, sc=vs, mag=m)
    if not ok:
      ctx.violation("energy", "energy at r=%r: %r vs reference %s" % (r, got, mp.nstr(v, 15)), what="energy")
      continue
    leafname = node["name"] if node["k"] == "form" else node["k"]
    for order, attr, dref, ds in ((1, "deriv", d1, s1), (2, "deriv2", d2, s2)):
      if not hasattr(f, attr):
        continue
      i0 = len(log.events)
      try:
        g = getattr(f, attr)(r)
      except Exception as e:
        et, fn = exc_sig(e)
        ctx.violation("exception", "%s raised at r=%r: %s %s" % (attr, r, et, e), what="exception", exc=et, func=fn, stage=attr,
                      at_zero=str(r == 0.0), leaf=leafname if case["kind"] == "form" else "tree")
        continue
      slack = 0 if o.analytic else o.num_deriv_slack(rr, order)
      ok, diff, tol = R.close(g, dref, sc=ds, rel=1e-8, abs_=slack, mag=o.dmag(rr, order))
      ctx.count("deriv_compared" if order == 1 else "deriv2_compared")
      if not ok:
        ctx.violation(attr, "%s(%r) = %r, true derivative %s (|diff|=%.3g tol=%.3g, route %s)" % (attr, r, g, mp.nstr(dref, 15), diff, tol, case["route"]), what=attr,
                      analytic=str(o.analytic))
      if case["route"] == "api":
        check_locality(ctx, case, log, r, order, i0)
    if abs(d1) > 1e-9:
      nz = True
  ctx.nontrivial(nz and (nleaves >= 2 or case["kind"] == "form"))
