"""C13 - species filtering equals deleting the unwanted interactions from the file (DESIGN.md section 4, C13)."""
import copy
import io
import random

import emit
import readers
import routes
import spec
from harness import exc_sig

PROPERTY_ID = "C13"
LEVEL = "exploration"
RULE = ("seeded pair / EAM / Finnis-Sinclair / ADP models x species sets S in {partial, full, containing unknown labels, empty} x include/exclude x "
        "all 11 targets; filtered through 'potable IN OUT --include-species/--exclude-species ...' (main() in-process and as a subprocess) and through "
        "FilteredConfigParser + Configuration.read_from_parser; compared byte for byte (xlsx by cell content) with tabulating the file from which "
        "the entries were deleted by a reference editor working on the spec; plus view histories: 2-5 filtered views of one parsed file created "
        "in random order with different settings and read interleaved. Non-trivial: the filter deletes at least one entry and keeps at least one; "
        "distinct = canonical JSON of (model, S, mode, route).")
ASSUMPTIONS = ["'mentions a species' = the species appears in the entry's key (A-B, A, A->B); [EAM-ADP-*] entries are not named by the property and are left in place",
               "both outputs failing with a configuration error counts as agreement"]
ANCHORS = ["_filtered_config_parser.py:FilteredConfigParser._check_tuple", "_filtered_config_parser.py:FilteredConfigParser.pair",
           "_filtered_config_parser.py:FilteredConfigParser.eam_density_fs", "potable/__init__.py:_make_config_parser", "potable/__init__.py:_do_tabulation"]
MIN_NONTRIVIAL = {"quick": 40, "thorough": 500}
MIN_COUNTERS = {"differentials": 120, "view_reads": 200, "view_contract_evaluations": 200}
TECHNIQUE = "runtime monitoring: filter-vs-hand-deleted-file byte differential; invariant on hooked FilteredConfigParser properties across view histories"
LEVEL_TEXT = ("Exploration: the real CLI and FilteredConfigParser are run on seeded models with include/exclude sets; the output must be byte-identical "
              "to tabulating the file with the entries deleted (reference editor on the spec), entry order preserved; hooked pair/eam_* properties "
              "of every view are compared at every read with the reference filter of the wrapped parser's lists and the settings the view was "
              "constructed with, over random create/read histories of several views of one parsed file.")
LEVEL_NOTE = "Trusted: the reference editor (deletion by key) and emit.model_text."
DESIGN_REF = "DESIGN.md section 4, C13"

PAIR_T = ["LAMMPS", "DLPOLY", "GULP", "excel"]
EAM_T = ["setfl", "DL_POLY_EAM", "excel_eam", "lammps_eam_alloy"]
FS_T = ["setfl_fs", "DL_POLY_EAM_fs", "excel_eam_fs"]


def gen_model(rng, i):
  kind = ["pair", "eam", "fs", "adp"][i % 4]
  if kind == "pair":
    t = PAIR_T[(i // 4) % 4]
    nr = 8 if t == "DLPOLY" else rng.choice([3, 5, 9])
    m = spec.gen_pair_model(rng, "potable", target=t, reg0=True, depth=1, nr_choices=[nr], npots=rng.choice([2, 3, 4, 6]))
  else:
    t = {"eam": EAM_T[(i // 4) % 4], "fs": FS_T[(i // 4) % 3], "adp": "eam_adp"}[kind]
    m = spec.gen_eam_model(rng, kind, "potable", target=t, depth=1, grids={"nr": rng.choice([3, 5, 9]), "nrho": rng.choice([2, 3, 5])},
                           nspecies=rng.choice([2, 3, 3, 4]))
  return m


def model_species(m):
  s = []
  for key in ("pair", "embed", "density"):
    for ent in m.get(key) or []:
      for x in ent[:-1]:
        if x not in s:
          s.append(x)
  return s


def gen_cases(rng, tier):
  n = 150 if tier == "quick" else 2000
  cases = []
  for i in range(n):
    m = gen_model(rng, i)
    sp = model_species(m)
    cls = ["partial", "partial", "partial", "full", "unknown", "empty"][i % 6]
    if cls == "partial":
      S = rng.sample(sp, rng.randint(1, max(1, len(sp) - 1)))
    elif cls == "full":
      S = list(sp)
    elif cls == "unknown":
      S = rng.sample(sp, rng.randint(0, len(sp))) + [rng.choice(["Zz", "Q9", "Xx"])]
      if (i // 6) % 2 == 1:
        # an unknown label that is a species of the file with white space at its edge ('Al ' - no entry of a file can mention
        # it: labels are read without their surrounding blanks): S is a set of labels, compared as given (seeded change C13r10)
        x_ = rng.choice(sp)
        S = [y_ for y_ in S if y_ != x_] + [[x_ + " ", "\t" + x_, " " + x_ + " ", x_ + "\u00a0"][(i // 12) % 4]]
      rng.shuffle(S)
    else:
      S = []
    route = "cli" if i % 15 == 7 else rng.choice(["api", "main"])
    if S and i % 4 == 2:
      # a label given twice (or three times) means what it means once
      S = S + [rng.choice(S)] + ([S[0]] if i % 8 == 2 else [])
      rng.shuffle(S)
    cases.append({"kind": "diff", "model": m, "S": S, "exclude": rng.random() < 0.5, "route": route, "set_class": cls,
                  "style": (rng.randrange(1, 1 << 30) if i % 2 else 0)})
  # an EAM species whose label holds a hyphen ('X-Y': legal as an [EAM-Embed] / [EAM-Density] key) next to the pair
  # between the species X and Y: two different things that read alike
  for i in range(6 if tier == "quick" else 40):
    m = spec.gen_eam_model(rng, "eam", "potable", nspecies=3, target=rng.choice(["setfl", "DL_POLY_EAM", "excel_eam"]), underspecified=0,
                           grids={"nr": 4, "nrho": 3}, with_forms=False)
    x_, y_, w_ = m["all_species"]
    hy = "%s-%s" % (x_, y_)
    m["pair"] = [e for e in m["pair"] if w_ not in e[:2]]
    if not any(set(e[:2]) == {x_, y_} for e in m["pair"]):
      m["pair"].append([x_, y_, {"k": "form", "name": "constant", "p": [2.5]}])
    m = spec.rename_species(m, {w_: hy})
    m.setdefault("species", {}).setdefault(hy, {}).update({"atomic_number": 5, "atomic_mass": 10.8})
    S = [[hy], [hy, x_], [x_, y_], [hy, x_, y_]][i % 4]
    cases.append({"kind": "diff", "model": m, "S": S, "exclude": bool(i % 2), "route": ["api", "main"][(i // 2) % 2], "set_class": "hyphenated_species_label", "style": 0})
  nv = 40 if tier == "quick" else 500
  for i in range(nv):
    m = gen_model(rng, i)
    sp = model_species(m)
    views = []
    for k in range(rng.randint(2, 5)):
      v = {"S": rng.sample(sp, rng.randint(1, len(sp))), "exclude": rng.random() < 0.5}
      if rng.random() < 0.3:
        v["S"] = v["S"] + [rng.choice(v["S"])]
      if k and rng.random() < 0.4:
        v["parent"] = rng.randrange(k)     # a view of a view: the inner view stands in for the file
      views.append(v)
    ops = []
    for _ in range(rng.randint(6, 20)):
      ops.append([rng.randrange(len(views)), rng.choice(["pair", "eam_embed", "eam_density"])])
    order = list(range(len(views)))
    rng.shuffle(order)
    cases.append({"kind": "views", "model": m, "views": views, "ops": ops, "create_order": order, "lazy": rng.random() < 0.5})
  if tier in ["thorough"]:
    cases.append({"kind": "suite"})   # the repository's own tests with this check's contracts armed
  return cases


def keep(species, S, exclude):
  """Reference rule: include -> every species of the entry is in S; exclude -> none is."""
  if exclude:
    return not any(x in S for x in species)
  return all(x in S for x in species)


def edit_model(m, S, exclude):
  e = copy.deepcopy(m)
  removed = kept = 0
  for key in ("pair", "embed", "density"):
    if e.get(key) is None:
      continue
    new = []
    for ent in e[key]:
      if keep(ent[:-1], S, exclude):
        new.append(ent)
        kept += 1
      else:
        removed += 1
    e[key] = new
  return e, removed, kept


def outcome(res):
  """Normalise a run result to ('ok', bytes) | ('config_error', msg) | ('internal', msg)."""
  if res["rc"] == 0 and res["exists"]:
    return ("ok", res["data"])
  if res["rc"] == 2 and "configuration error" in res["err"]:
    return ("config_error", res["err"].strip().split("\n")[-1])
  return ("internal", "rc=%s %s" % (res["rc"], res["err"][-300:]))


def run_api(text, S, exclude, filtered):
  from atsim.potentials.config import ConfigParser, FilteredConfigParser, Configuration
  from atsim.potentials.config._common import ConfigurationException
  try:
    cp = ConfigParser(io.StringIO(text))
    if filtered:
      cp = FilteredConfigParser(cp, exclude=S) if exclude else FilteredConfigParser(cp, include=S)
    tab = Configuration().read_from_parser(cp)
    out = routes.write_tab(tab)
    return ("ok", out if isinstance(out, bytes) else out.encode())
  except ConfigurationException as e:
    return ("config_error", str(e))
  except Exception as e:
    et, fn = exc_sig(e)
    return ("internal", "%s %s in %s" % (et, e, fn))


def same_output(target, a, b):
  if a[:2] == b"PK" and b[:2] == b"PK":   # xlsx containers embed timestamps: compare by cell content
    return readers.read_xlsx(a)["sheets"] == readers.read_xlsx(b)["sheets"]
  return a == b


def run_diff(case, ctx):
  m, S, exclude, route = case["model"], case["S"], case["exclude"], case["route"]
  ctx.cls("route:" + route)
  ctx.cls("target:" + m["target"])
  ctx.cls("set:" + case["set_class"])
  if len(set(S)) < len(S):
    ctx.cls("species_list_with_repeated_label")
  ctx.cls("mode:" + ("exclude" if exclude else "include"))
  edited, removed, kept = edit_model(m, S, exclude)
  # the file handed to the filter is written the way people write files (white space - also form feed / vertical tab -
  # around the '-' and '->' of keys, comments, numeral spellings): the labels the filter compares are the bare ones
  text = emit.model_text(m, emit.Style(random.Random(case.get("style", 0)))) if case.get("style") else emit.model_text(m)
  text_edit = emit.model_text(edited)
  if route == "api":
    got = run_api(text, S, exclude, True)
    want = run_api(text_edit, S, exclude, False)
  else:
    runner = routes.run_potable if route == "cli" else routes.potable_main
    flag = "--exclude-species" if exclude else "--include-species"
    got = outcome(runner(["@IN", "@OUT", flag] + list(S), text))
    want = outcome(runner(["@IN", "@OUT"], text_edit))
  ctx.count("differentials")
  mech = "empty_set_" + ("cli" if route != "api" else "api") + ("_exclude" if exclude else "_include") if not S else "filter"
  if want[0] == "internal":
    ctx.note("hand-edited file itself fails internally: %s" % want[1][:200])
    ctx.count("edited_file_internal_error")
    if got[0] != "internal":
      ctx.violation("outcome_differs", "filter gives %s, hand-edited file fails internally (%s)" % (got[0], want[1][:200]), what="outcome_differs", mech=mech)
    return
  if got[0] != want[0]:
    ctx.violation("outcome_differs", "S=%s %s via %s: filter -> %s (%s), hand-edited file -> %s (%s)" % (
      S, "exclude" if exclude else "include", route, got[0], str(got[1])[:150], want[0], str(want[1])[:150]), what="outcome_differs", mech=mech)
    return
  if got[0] == "ok" and not same_output(m["target"], got[1], want[1]):
    ctx.violation("output_differs", "S=%s %s via %s target %s: filtered output differs from the output of the hand-edited file (removed %d entries, kept %d)" % (
      S, "exclude" if exclude else "include", route, m["target"], removed, kept), what="output_differs", mech=mech)
    return
  ctx.cls("agree:" + got[0])
  ctx.nontrivial(removed > 0 and kept > 0 and got[0] == "ok")


# ---------------------------------------------------------------- view histories with hooked properties

_hook = {"evals": 0, "failures": [], "settings": {}}


def setup_worker():
  from atsim.potentials.config import _filtered_config_parser as fcp
  cls = fcp.FilteredConfigParser
  orig_init = cls.__init__

  def init(self, config_parser, exclude=[], include=[]):
    orig_init(self, config_parser, exclude=exclude, include=include)
    _hook["settings"][id(self)] = (list(exclude) if exclude else list(include), bool(exclude))
  cls.__init__ = init

  def wrap(name, keyfn):
    prop = getattr(cls, name)

    def getter(self):
      res = prop.fget(self)
      st = _hook["settings"].get(id(self))
      if st is not None:
        _hook["evals"] += 1
        S, excl = st
        full = getattr(self.__wrapped__, name)
        want = [keyfn(p) for p in full if keep(keyfn(p), S, excl)]
        have = [keyfn(p) for p in res]
        if want != have:
          _hook["failures"].append("view(%s=%s).%s returned %s, reference filter gives %s" % ("exclude" if excl else "include", S, name, have, want))
      return res
    setattr(cls, name, property(getter))
  wrap("pair", lambda p: tuple(p.species))
  wrap("eam_embed", lambda p: (p.species,))
  wrap("eam_density", lambda p: (p.species,))
  wrap("eam_density_fs", lambda p: tuple(p.species))


def run_views(case, ctx):
  from atsim.potentials.config import ConfigParser, FilteredConfigParser
  m = case["model"]
  text = emit.model_text(m)
  cp = ConfigParser(io.StringIO(text))
  fs = m["type"] == "fs"
  views = {}
  specs = case["views"]
  pending = list(case["create_order"])
  f0 = len(_hook["failures"])
  e0 = _hook["evals"]

  def make(i):
    v = specs[i]
    base = cp
    if v.get("parent") is not None:
      if v["parent"] not in views:
        make(v["parent"])
      base = views[v["parent"]]
      ctx.cls("stacked_view:%s_over_%s" % ("exclude" if v["exclude"] else "include", "exclude" if specs[v["parent"]]["exclude"] else "include"))
    views[i] = FilteredConfigParser(base, exclude=v["S"]) if v["exclude"] else FilteredConfigParser(base, include=v["S"])

  def chain(i):
    out = [specs[i]]
    while out[-1].get("parent") is not None:
      out.append(specs[out[-1]["parent"]])
    return out

  if not case["lazy"]:
    for i in pending:
      if i not in views:
        make(i)
    pending = []
  for vi, attr in case["ops"]:
    while vi not in views:
      nxt = pending.pop(0)
      if nxt not in views:
        make(nxt)
    if m["type"] == "pair" and attr != "pair":
      attr = "pair"
    if attr == "eam_density" and fs:
      attr = "eam_density_fs"
    v = specs[vi]
    try:
      got = getattr(views[vi], attr)
    except Exception as e:
      et, fn = exc_sig(e)
      ctx.violation("view_exception", "%s raised %s %s" % (attr, et, e), what="view_exception")
      return
    key = {"pair": "pair", "eam_embed": "embed", "eam_density": "density", "eam_density_fs": "density"}[attr]
    want = [tuple(ent[:-1]) for ent in m[key] if all(keep(ent[:-1], c["S"], c["exclude"]) for c in chain(vi))]
    have = [tuple(p.species) if not isinstance(p.species, str) else (p.species,) for p in got]
    ctx.count("view_reads")
    if want != have:
      ctx.violation("view_history", "view %d (%s=%s) .%s returned %s, expected %s after creating %d views" % (
        vi, "exclude" if v["exclude"] else "include", v["S"], attr, have, want, len(views)), what="view_history")
      return
  ctx.count("view_contract_evaluations", _hook["evals"] - e0)
  for msg in _hook["failures"][f0:f0 + 2]:
    ctx.violation("view_contract", msg, what="view_contract")
  # tabulating from a (possibly stacked) view == tabulating the file with the entries deleted by hand
  from atsim.potentials.config import Configuration
  from atsim.potentials.config._common import ConfigurationException
  for vi in sorted(views)[-2:]:
    edited = m
    for c in chain(vi):
      edited = edit_model(edited, c["S"], c["exclude"])[0]
    want = run_api(emit.model_text(edited), None, None, False)
    try:
      out = routes.write_tab(Configuration().read_from_parser(views[vi]))
      got = ("ok", out if isinstance(out, bytes) else out.encode())
    except ConfigurationException as e:
      got = ("config_error", str(e))
    except Exception as e:
      et, fn = exc_sig(e)
      got = ("internal", "%s %s in %s" % (et, e, fn))
    ctx.count("view_tabulations")
    if got[0] != want[0] or (got[0] == "ok" and not same_output(m["target"], got[1], want[1])):
      if not (want[0] == "internal" and got[0] == "internal"):
        ctx.violation("view_tabulation", "view %d (chain %s): tabulation -> %s (%s), hand-deleted file -> %s (%s)" % (
          vi, [("exclude" if c["exclude"] else "include", c["S"]) for c in chain(vi)], got[0], str(got[1])[:120] if got[0] != "ok" else "%d bytes" % len(got[1]),
          want[0], str(want[1])[:120] if want[0] != "ok" else "%d bytes" % len(want[1])), what="view_tabulation")
        return
  ctx.nontrivial(len(specs) >= 2)


def run_case(case, ctx):
  if case.get("kind") == "suite":
    import suite_contracts
    ctx.cls("kind:suite_with_contracts")
    return suite_contracts.run_suite(ctx, 'c13', ['view_properties'])
  ctx.cls("kind:" + case["kind"])
  if case["kind"] == "diff":
    return run_diff(case, ctx)
  return run_views(case, ctx)
