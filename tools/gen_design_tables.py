#!/venv/bin/python
"""Rewrites the generated blocks of DESIGN.md: 10.4 mutation matrix (from a selftest log) and
10.5 seeded changes (from seeded/*/meta.json).  usage: gen_design_tables.py [SELFTEST_LOG]"""
import ast
import glob
import json
import os
import re
import sys

ROOT = os.path.dirname(os.path.dirname(os.path.abspath(__file__)))
p = os.path.join(ROOT, "DESIGN.md")
s = open(p).read()
BEGIN, END = "<!-- GENERATED:BEGIN -->", "<!-- GENERATED:END -->"
out = []
log = sys.argv[1] if len(sys.argv) > 1 else None
rows = []
if log and os.path.exists(log):
  for l in open(log):
    m = re.match(r"MUTANT (\S+)\s+(CAUGHT|MISSED|STALE)\s+(.*)$", l)
    if m:
      name, verdict, rest = m.groups()
      try:
        det = ast.literal_eval(rest.strip())
        dtxt = "; ".join("%s: %s" % (c, ", ".join(k)) for c, rc, k in det if rc == 1 and k) or "-"
      except Exception:
        dtxt = rest.strip()[:120]
      rows.append((name, verdict, dtxt))
cat = json.load(open(os.path.join(ROOT, "mutants", "catalogue.json")))["mutants"]
prop = {m["name"]: (m["property"] if isinstance(m["property"], str) else "/".join(m["property"])) for m in cat}
out.append("### 10.4 Mutation matrix (my own property-breaking changes; `./selftest.py`)\n")
out.append("Each mutant is applied to a scratch copy of `/repo/atsim`, the *quick* check of its property is run with `--repo`, and exit 1 with at least one `VIOLATION` line is required. "
           "`revert_<commit>` mutants undo one of the repairs of section 5.1. Last full run: %d mutants, %d caught, %d missed.\n" % (
             len(rows), sum(1 for r in rows if r[1] == "CAUGHT"), sum(1 for r in rows if r[1] != "CAUGHT")))
out.append("| mutant | property | result | violation kinds reported |\n|---|---|---|---|")
for name, verdict, d in rows:
  out.append("| `%s` | %s | %s | %s |" % (name, prop.get(name, "?"), verdict.lower(), d))
out.append("")
out.append("### 10.5 Independently seeded changes (`seeded/<name>/`)\n")
out.append("Written by fresh sub-agents that were given only the text of one property and a scratch git worktree (nothing from /verif). Each was confirmed by me in a fresh worktree "
           "(`tools/verify_seed.sh`: demo passes without / fails with the patch, the 162 baseline tests still pass with it) before being kept. \"missed\" entries led to the strengthening named in the last column.\n")
out.append("| seeded change | property | what it needs to manifest | detected by |\n|---|---|---|---|")
for d in sorted(glob.glob(os.path.join(ROOT, "seeded", "*"))):
  mp = os.path.join(d, "meta.json")
  if not os.path.exists(mp):
    continue
  m = json.load(open(mp))
  needs = (m.get("needs_to_manifest") or "").replace("\n", " ").replace("|", "/")
  out.append("| `%s` | %s | %s | %s |" % (os.path.basename(d), m["property"], needs[:400], (m.get("detected_by") or "").replace("|", "/")))
out.append("")
block = BEGIN + "\n" + "\n".join(out) + "\n" + END
if BEGIN in s:
  s = s[:s.index(BEGIN)] + block + s[s.index(END) + len(END):]
else:
  s = s.rstrip("\n") + "\n\n" + block + "\n"
open(p, "w").write(s)
print("DESIGN.md tables regenerated: %d mutants, %d seeds" % (len(rows), len(glob.glob(os.path.join(ROOT, "seeded", "*", "meta.json")))))
