#!/bin/sh
# Runs the repository's pinned suite (guard off) and compares with BASELINE.json's stable_pass list.
cd /repo && env -u ATSIM_POTENTIALS_VERIF /venv/bin/python -m pytest -ra -q -p no:cacheprovider --timeout=900 --continue-on-collection-errors --junitxml=/tmp/verif-baseline.xml >/tmp/verif-baseline.log 2>&1
/venv/bin/python - <<'P'
import json, xml.etree.ElementTree as ET
base=json.load(open('/root/.vp/BASELINE.json'))
t=ET.parse('/tmp/verif-baseline.xml')
passed=set()
for tc in t.iter('testcase'):
  if not any(ch.tag in ('failure','error','skipped') for ch in tc):
    passed.add(tc.get('classname')+'::'+tc.get('name'))
want=set(base['stable_pass'])
missing=sorted(want-passed)
print("baseline: %d/%d stable tests pass; %d passed in total" % (len(want)-len(missing), len(want), len(passed)))
for m in missing[:20]: print("  MISSING", m)
import sys; sys.exit(1 if missing else 0)
P
rc=$?
rm -f /tmp/verif-baseline.xml /tmp/verif-baseline.log
exit $rc
