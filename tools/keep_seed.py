#!/venv/bin/python
"""keep_seed.py SRC_DIR NAME 'verification summary' 'detected by' - archives a confirmed seeded change under /verif/seeded/NAME."""
import json, os, shutil, sys
src, name, ran, detected = sys.argv[1:5]
dst = os.path.join("/verif/seeded", name)
os.makedirs(dst, exist_ok=True)
shutil.copy(os.path.join(src, "patch.diff"), os.path.join(dst, "patch.diff"))
shutil.copy(os.path.join(src, "demo.py"), os.path.join(dst, "demo.py"))
m = json.load(open(os.path.join(src, "meta.json")))
meta = {"property": m["property"], "origin": "independent sub-agent given only the property text and a scratch worktree",
        "what_changed": m.get("summary"), "needs_to_manifest": m.get("needs"), "agent_tests_run": m.get("tests_run"),
        "confirmed_by_me": ran, "detected_by": detected}
json.dump(meta, open(os.path.join(dst, "meta.json"), "w"), indent=1)
print("kept", dst)
