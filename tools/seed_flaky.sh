#!/bin/sh
# usage: seed_flaky.sh PATCHFILE CHECK SEEDS...  - applies the patch to a scratch worktree and runs CHECK with each seed
p=$1; c=$2; shift 2
wt=/tmp/sf-$$
git -C /repo worktree add -q --detach $wt HEAD || exit 9
git -C $wt apply $p || { echo "PATCH DOES NOT APPLY"; git -C /repo worktree remove --force $wt; exit 8; }
for s in "$@"; do
  out=$(cd /verif && ./check $c --repo $wt --seed $s 2>&1); rc=$?
  echo "seed $s rc=$rc $(echo "$out" | grep '^  # ' | sed 's/^  # \([a-zA-Z_0-9]*\):.*/\1/' | sort -u | tr '\n' ' ')"
done
git -C /repo worktree remove --force $wt
