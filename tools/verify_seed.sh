#!/bin/sh
# usage: verify_seed.sh SEEDDIR NAME [CHECKS...]
# Confirms a seeded change in a fresh scratch worktree (demo passes without / fails with the patch, baseline
# suite still passes with it), runs the named checks (default: the property in meta.json) against the patched
# tree, then removes the worktree.  Prints one summary line per step.
src=$1; name=$2; shift 2
wt=/tmp/vs-$name
git -C /repo worktree remove --force $wt >/dev/null 2>&1
git -C /repo worktree add -q --detach $wt HEAD || exit 9
mkdir -p $wt/.pin
cat > $wt/.pin/sitecustomize.py <<P
import sys, warnings
warnings.filterwarnings("ignore")
import atsim
atsim.__path__[:] = ["$wt/atsim"]
P
run() { WT=$wt PYTHONPATH=$wt/.pin PYTHONWARNINGS=ignore "$@"; }
run /venv/bin/python $src/demo.py >/tmp/vs-$name.demo0 2>&1; d0=$?
git -C $wt apply $src/patch.diff || { echo "PATCH DOES NOT APPLY"; git -C /repo worktree remove --force $wt; exit 8; }
run /venv/bin/python $src/demo.py >/tmp/vs-$name.demo1 2>&1; d1=$?
( cd $wt && run /venv/bin/python -m pytest -q -p no:cacheprovider --timeout=900 --continue-on-collection-errors --junitxml=/tmp/vs-$name.xml >/dev/null 2>&1 )
missing=$(/venv/bin/python - <<P
import json, xml.etree.ElementTree as ET
base=json.load(open('/root/.vp/BASELINE.json'))
passed=set()
for tc in ET.parse('/tmp/vs-$name.xml').iter('testcase'):
  if not any(ch.tag in ('failure','error','skipped') for ch in tc): passed.add(tc.get('classname')+'::'+tc.get('name'))
print(len(set(base['stable_pass'])-passed))
P
)
echo "SEED $name: demo without patch exit=$d0 (want 0); with patch exit=$d1 (want !=0); baseline tests missing with patch: $missing (want 0)"
prop=$(/venv/bin/python -c "import json;print(json.load(open('$src/meta.json'))['property'])")
checks="$@"; [ -z "$checks" ] && checks=$prop
for c in $checks; do
  out=$(cd /verif && ./check $c --repo $wt 2>&1); rc=$?
  kinds=$(echo "$out" | grep '^  # ' | sed 's/^  # \([a-zA-Z_0-9]*\):.*/\1/' | sort -u | tr '\n' ' ')
  echo "SEED $name: check $c rc=$rc kinds: $kinds"
done
git -C /repo worktree remove --force $wt
rm -f /tmp/vs-$name.*
