#!/bin/sh
# usage: mkwt.sh ID  -> creates /tmp/wt-ID (git worktree of /repo HEAD) with an import pin
id=$1
wt=/tmp/wt-$id
git -C /repo worktree add -q --detach $wt HEAD
mkdir -p $wt/.pin
cat > $wt/.pin/sitecustomize.py <<P
import os, sys, warnings
warnings.filterwarnings("ignore")
try:
  import atsim
  atsim.__path__[:] = ["$wt/atsim"]
except Exception:
  sys.path.insert(0, "$wt")
P
cat > $wt/RUN.md <<P
Run python against THIS worktree's code (the package is otherwise imported from /repo):
  PYTHONPATH=$wt/.pin PYTHONWARNINGS=ignore /venv/bin/python your_script.py
Run the existing test suite against this worktree:
  cd $wt && PYTHONPATH=$wt/.pin /venv/bin/python -m pytest -q -p no:cacheprovider -x -q 2>&1 | tail -5
  (162 tests pass and 5 fail on the untouched tree: test_pow_modifier, test_product_modifier, test_trans_modifier, testExampleA_obj, test_tang_toennies - those five need sympy and may keep failing)
Check which code is loaded:  PYTHONPATH=$wt/.pin /venv/bin/python -c "import atsim.potentials as p; print(p.__file__)"
P
mkdir -p /tmp/seed-out/$id
echo $wt
