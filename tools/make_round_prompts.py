#!/venv/bin/python
"""make_round_prompts.py ROUND STYLEKEY:PROP[,PROP...] ...  - writes /tmp/seed-out/prompt-<PROP>r<ROUND>.txt from
tools/prompts/seed_prompt_example.txt for each named property (property block from properties.jsonl, style paragraph from
STYLES below) and creates the scratch worktrees with tools/mkwt.sh.  Example (round 10):
  tools/make_round_prompts.py 10 A:C01,C07,C10,C18,C06,C11,C15 B:C03,C12,C17,C19,C02 C:C05,C09,C14,C16,C04,C08,C13,C20
Each sub-agent is then started with only: "Read the file /tmp/seed-out/prompt-<name>.txt and carry out exactly the task it describes."
"""
import json, os, re, subprocess, sys
ROOT = os.path.dirname(os.path.dirname(os.path.abspath(__file__)))
STYLES = {
 'A': "COMPATIBILITY AND MODERNISATION: a change made 'to keep up with' newer Python / numpy / scipy / configparser / openpyxl behaviour or to silence a deprecation warning - replacing a deprecated call by its supposed equivalent, switching string formatting style (% to format / f-string), replacing a hand-written loop by a library call (numpy.linspace/arange, itertools, math.fsum, str methods, dict/set comprehension), pathlib instead of os.path, configparser API differences (get/getint/items/read_string/optionxform, interpolation, raw=), where the replacement differs from the original in a corner.",
 'B': "RESOURCES AND I/O: buffering, flush / close order, context managers, temporary files and renames, text encoding and newline translation, seek/tell/truncate, file-like objects that are not real files, several outputs written by one run (multi-file targets, worksheets, species-named files), the working directory and relative paths, writes that happen before validation has finished.",
 'C': "ADDED NORMALISATION OR VALIDATION: a well-meant strip() / lower() / casefold / round() / int() / abs() / clamp / default value / early 'sanity check' / de-duplication / sorting added (or removed) at one site, slightly too eager or too lax, so that legitimate but unusual inputs are altered, merged, reordered or rejected - or illegitimate ones now pass - while all ordinary inputs behave as before.",
}
# classes added to the checks since the example prompt was written (appended to its "assume a thorough tester already exercises" list)
EXTRA = (", parameter lists agreeing to six figures, falsy callables, int and float range starts closer than doubles resolve, every quotient cutoff/step of up to "
         "three significant digits, white-space variants of section names, nested variables with overrides, labels that are words of the expression language, output "
         "paths that already hold a longer older file, files opened in append mode, species labels alike in their first 8 or 12 characters, placeholder species with "
         "zero atomic number or mass, two keys differing only by a form feed or no-break space edited in one command, non-default numerical-derivative steps, functions "
         "decayed to 1e-30, tables of tens of megabytes in many blocks, negative range starts, species arguments with white space at their edges, variables named like "
         "grid options, Finnis-Sinclair densities alike in their first range, unit conversions of the legacy table reader")
props = {json.loads(l)['id']: json.loads(l) for l in open(os.path.join(ROOT, 'properties.jsonl'))}
ex = open(os.path.join(ROOT, 'tools/prompts/seed_prompt_example.txt')).read()
rnd = sys.argv[1]
os.makedirs('/tmp/seed-out', exist_ok=True)
for arg in sys.argv[2:]:
  st, plist = arg.split(':')
  for pid in plist.split(','):
    p = props[pid]; name = '%sr%s' % (pid, rnd)
    t = ex.replace('C05r9', name)
    blk = "  Title: %s\n  Statement: %s\n  Quantified over: %s\n  Code most relevant: %s\n" % (p['title'], p['statement'], p['quantifier']['text'], ', '.join(p['anchors']['files']))
    t = re.sub(r"  Title: .*?\n  Code most relevant: [^\n]*\n", lambda m: blk, t, flags=re.S)
    t = re.sub(r"STYLE FOR THIS ROUND: [^\n]*\n", lambda m: "STYLE FOR THIS ROUND: " + STYLES[st] + "\n", t)
    t = t.replace(", signed zeros) through", ", signed zeros" + EXTRA + ") through")
    t = t.replace('"property": "C05"', '"property": "%s"' % pid)
    assert name in t and p['title'] in t
    open('/tmp/seed-out/prompt-%s.txt' % name, 'w').write(t)
    print(subprocess.run(['sh', os.path.join(ROOT, 'tools/mkwt.sh'), name], capture_output=True, text=True).stdout.strip())
