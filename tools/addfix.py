#!/usr/bin/env python3
"""addfix.py PROPERTY COMMIT KEY 'what failed' [CHECKPROP]  - records a fixed: entry and a revert mutant"""
import json, sys
prop, commit, key, what = sys.argv[1:5]
chk = sys.argv[5] if len(sys.argv) > 5 else prop
k = json.load(open('/verif/known_findings.json'))
k['findings'].append({"property": prop, "key": key, "status": "fixed", "commit": commit, "what_fails": "fixed: property=%s %s %s" % (prop, commit, what)})
json.dump(k, open('/verif/known_findings.json', 'w'), indent=1)
c = json.load(open('/verif/mutants/catalogue.json'))
ms = c['mutants'] if isinstance(c, dict) else c
ms.append({"name": "revert_%s_%s" % (commit, key.replace('-', '_')), "property": chk, "revert_commit": commit})
json.dump(c, open('/verif/mutants/catalogue.json', 'w'), indent=1)
