#!/venv/bin/python
"""Regenerates MANIFEST.json from the check modules present in checks/."""
import importlib
import json
import os
import sys

ROOT = os.path.dirname(os.path.dirname(os.path.abspath(__file__)))
sys.path[:0] = [os.path.join(ROOT, "lib"), ROOT]
sys.path.append(os.path.join(ROOT, ".deps"))
os.environ.setdefault("PYTHONWARNINGS", "ignore")

NA = json.load(open(os.path.join(ROOT, "tools", "not_applicable.json")))
props = [json.loads(l) for l in open(os.path.join(ROOT, "properties.jsonl"))]
base = json.load(open("/root/.vp/BASELINE.json"))
checks = []
na = []
for p in props:
  pid = p["id"]
  path = os.path.join(ROOT, "checks", pid.lower() + ".py")
  if pid in NA or not os.path.exists(path):
    na.append({"property_id": pid, "reason": NA.get(pid, "check not built yet in this snapshot (planned, see DESIGN.md section 4)")})
    continue
  src = open(path).read()
  ns = {}
  # only read the metadata constants without importing the repository
  import ast
  tree = ast.parse(src)
  for node in tree.body:
    if isinstance(node, ast.Assign) and len(node.targets) == 1 and isinstance(node.targets[0], ast.Name):
      try:
        ns[node.targets[0].id] = ast.literal_eval(node.value)
      except Exception:
        pass
  checks.append({
    "property_id": pid,
    "quick_cmd": "./check %s --tier quick" % pid,
    "thorough_cmd": "./check %s --tier thorough" % pid,
    "evidence_file": "/verif/evidence/%s.json" % pid,
    "replay_cmd_template": "./check %s --replay {path}" % pid,
    "engine": "harness",
    "level_claimed": {"category": ns["LEVEL"], "text": ns["LEVEL_TEXT"], "design_ref": ns.get("DESIGN_REF", "DESIGN.md section 4")},
    "level_note": ns["LEVEL_NOTE"],
    "technique": ns["TECHNIQUE"],
  })
man = {
  "version": 1,
  "setup_cmd": "sh ./setup.sh",
  "hooks": {
    "guard": "ATSIM_POTENTIALS_VERIF",
    "enable": "no source hooks: monitors are attached from outside (icontract decorators, recording wrappers, sys.monitoring, audit hooks, strace); each check imports /repo's working tree afresh in every worker process (lib/bootstrap.py)",
    "baseline_off_cmd": "cd /repo && /venv/bin/python -m pytest -ra -q -p no:cacheprovider --timeout=900 --continue-on-collection-errors",
    "source_commits": [],
    "add_only": True,
  },
  "engines": [{"name": "harness", "path": "/verif/lib/harness.py", "serves_properties": [c["property_id"] for c in checks],
               "kind_free_text": "runtime-monitoring driver: seeded workload generators, sharded execution of the real code in subprocesses, monitors (readers, reference model, contracts, traces, failpoints), three-valued verdicts, evidence writer"}],
  "checks": checks,
  "not_applicable": na,
  "notes": "exit 0 held / 1 VIOLATION / 2 INCONCLUSIVE (never folded). Known findings: /verif/known_findings.json (by mechanism).",
}
json.dump(man, open(os.path.join(ROOT, "MANIFEST.json"), "w"), indent=1)
import jsonschema
jsonschema.validate(man, json.load(open("/root/.vp/MANIFEST.schema.json")))
print("MANIFEST.json: %d checks, %d not_applicable" % (len(checks), len(na)))
