"""Drive a model spec through the real code by one of the routes the properties name:
tabulation classes, legacy writer functions, potable in-process, potable CLI."""
import io
import os
import subprocess
import sys
import tempfile

import bootstrap
import emit

PAIR_CLASSES = {"LAMMPS": "LAMMPS_PairTabulation", "DLPOLY": "DLPoly_PairTabulation", "DL_POLY": "DLPoly_PairTabulation",
                "GULP": "GULP_PairTabulation", "excel": "Excel_PairTabulation"}
EAM_CLASSES = {"setfl": "SetFL_EAMTabulation", "lammps_eam_alloy": "SetFL_EAMTabulation", "setfl_fs": "SetFL_FS_EAMTabulation",
               "DL_POLY_EAM": "TABEAM_EAMTabulation", "DL_POLY_EAM_fs": "TABEAM_FinnisSinclair_EAMTabulation",
               "excel_eam": "Excel_EAMTabulation", "excel_eam_fs": "Excel_FinnisSinclair_EAMTabulation",
               "eam_adp": "ADP_EAMTabulation"}
BINARY_TARGETS = ("excel", "excel_eam", "excel_eam_fs")


def is_binary(target):
  return target in BINARY_TARGETS


def new_fp(target):
  return io.BytesIO() if is_binary(target) else io.StringIO()


def read_config(text):
  from atsim.potentials.config import Configuration
  if isinstance(text, bytes):
    return Configuration().read(io.TextIOWrapper(io.BytesIO(text), encoding="utf-8"))
  return Configuration().read(io.StringIO(text))


def potable_inproc(text):
  """potable text -> tabulation object (Configuration().read)."""
  return read_config(text)


class SizedSink(object):
  """A destination that supports write() and nothing else of the file protocol, and that has a length (the number of
  characters received): like a list or a buffer class it is FALSY while empty.  The documentation asks for "a file object
  supporting write()" only."""

  def __init__(self):
    self._chunks = []

  def write(self, text):
    if not isinstance(text, str):
      raise TypeError("write() argument must be str, not %s" % type(text).__name__)
    self._chunks.append(text)
    return len(text)

  def __len__(self):
    return sum(len(c) for c in self._chunks)

  def getvalue(self):
    return "".join(self._chunks)


_SINK_COUNT = [0]


def text_sink(key=None):
  """The destination handed to a text writer: mostly io.StringIO, every third time a SizedSink (by `key` when given, so
  that a replayed case gets the same kind; else by call count)."""
  import zlib
  if key is None:
    _SINK_COUNT[0] += 1
    pick = _SINK_COUNT[0] % 3 == 0
  else:
    pick = zlib.crc32(repr(key).encode()) % 3 == 0
  return SizedSink() if pick else io.StringIO()


STALE_FILLER = ("9 9.9999 9.9999 9.9999\n" * 24000).encode()   # ~0.5 MB: what an earlier, longer table left at the path
OPEN_FP_WRITES = [0]


def prefill(path):
  """Leave the remains of an earlier, longer table at `path` (seeded changes C03r10 / C12r10: a destination that is
  opened without being emptied keeps the old tail behind the new table)."""
  with open(path, "wb") as f:
    f.write(STALE_FILLER)


def write_via_open_fp(tab):
  """tab.open_fp(path) + tab.write(fp) onto a path that already holds a longer file; returns what the path holds afterwards."""
  binary = tab.target in BINARY_TARGETS
  fd, path = tempfile.mkstemp(prefix="prev-", dir=os.environ.get("VERIF_TMP"))
  os.close(fd)
  try:
    prefill(path)
    with tab.open_fp(path) as fp:
      tab.write(fp)
    OPEN_FP_WRITES[0] += 1
    with open(path, "rb" if binary else "r", **({} if binary else {"newline": ""})) as fp:
      return fp.read()
  finally:
    os.unlink(path)


def write_to_opened_file(tab, mode):
  """tab.write(fp) into a real file the CALLER opened with `mode` ('ab': append mode - seekable() is true, yet every write
  lands at the end whatever the position, seeded change C19r10; 'w+b' / 'wb' / 'w'); returns what the file holds."""
  fd, path = tempfile.mkstemp(prefix="dest-", dir=os.environ.get("VERIF_TMP"))
  os.close(fd)
  try:
    with open(path, mode) as fp:
      tab.write(fp)
    with open(path, "rb") as fp:
      data = fp.read()
    return data if "b" in mode else data.decode("utf8")
  finally:
    os.unlink(path)


def write_tab(tab, fp=None):
  import zlib
  key = (tab.target, getattr(tab, "nr", 0), getattr(tab, "cutoff", 0))
  if fp is None and hasattr(tab, "open_fp") and zlib.crc32(repr(key).encode()) % 4 == 1:
    # every fourth destination (by key, so that a replayed case gets the same one) is the documented
    # open_fp(path) onto a path where a longer table was written before
    return write_via_open_fp(tab)
  if fp is None:
    fp = io.BytesIO() if tab.target in BINARY_TARGETS else text_sink(key)
  tab.write(fp)
  return fp.getvalue()


def file_variant(text):
  """Line-ending / end-of-file variants of an input FILE that mean nothing (chosen by a checksum of the text, so a
  replayed case gets the same variant): CRLF line endings, no newline after the last line."""
  import zlib
  h = zlib.crc32(text.encode("utf8"))
  if h % 6 == 0:
    text = text.replace("\n", "\r\n")
  if h % 5 == 0:
    text = text.rstrip("\r\n")
  return text


def run_potable(args, text=None, tmpdir=None, hashseed="0", timeout=120, infile_name="model.aspot", extra_env=None, stdin=None, stale_out=False):
  """Run the potable CLI of the tree under test in a subprocess.
  Returns dict(rc, out, err, outfile_bytes or None, outfile_exists)."""
  tmpdir = tmpdir or tempfile.mkdtemp(prefix="potable-", dir=os.environ.get("VERIF_TMP"))
  argv = list(args)
  inpath = None
  if text is not None:
    inpath = os.path.join(tmpdir, infile_name)
    if isinstance(text, bytes):        # a file that is not text in the expected encoding
      with open(inpath, "wb") as f:
        f.write(text)
    else:
      with open(inpath, "w", newline="") as f:
        f.write(file_variant(text))
    argv = [inpath if a == "@IN" else a for a in argv]
  outpath = os.path.join(tmpdir, "OUT.table")
  if os.path.exists(outpath):
    os.unlink(outpath)
  if stale_out:
    prefill(outpath)
  argv = [outpath if a == "@OUT" else a for a in argv]
  env = bootstrap.child_env(extra_env, hashseed=hashseed)
  r = subprocess.run(bootstrap.potable_cmd() + argv, env=env, cwd=tmpdir, capture_output=True, timeout=timeout,
                     input=(stdin if isinstance(stdin, bytes) else stdin.encode("utf8")) if stdin is not None else None)
  data = None
  exists = os.path.exists(outpath)
  if exists:
    with open(outpath, "rb") as f:
      data = f.read()
  return {"rc": r.returncode, "out": r.stdout.decode("utf8", "replace"), "err": r.stderr.decode("utf8", "replace"),
          "data": data, "exists": exists, "outpath": outpath, "inpath": inpath, "tmpdir": tmpdir}


NUMPY0D_CACHED = []   # the 'cached' wrappers built for the case at hand (cleared by the check before it builds its objects)


class Numpy0d(object):
  """A callable as people build them on numpy / scipy interpolants: it returns a 0-d array, not a float.
  mode 'fresh': a new array per call; 'int': an integer-typed array where the value is whole (numpy.where(r < rc, 1, 0));
  'cached': one array object per separation, handed out again on the next call with that separation (a memoised
  function) - the arrays are the caller's: whoever receives one must not change it (mutated() lists those changed)."""

  def __init__(self, f, mode="fresh"):
    import numpy
    self._f = f
    self._np = numpy
    self._mode = mode
    self._cache = {}
    if hasattr(f, "deriv"):
      self.deriv = lambda r: numpy.array(f.deriv(r))
    if hasattr(f, "deriv2"):
      self.deriv2 = lambda r: numpy.array(f.deriv2(r))
    if mode == "cached":
      NUMPY0D_CACHED.append(self)

  def __call__(self, r):
    if self._mode == "cached":
      if r not in self._cache:
        v = self._f(r)
        self._cache[r] = (self._np.array(v), v)
      return self._cache[r][0]
    v = self._f(r)
    if self._mode == "int" and v == int(v) and abs(v) < 1e15:
      return self._np.array(int(v))
    return self._np.array(v)

  def mutated(self):
    return [(r, v, float(a)) for r, (a, v) in self._cache.items() if not (float(a) == v or (v != v and float(a) != float(a)))]


def numpy0d_mutations(ctx):
  """After the real code ran: were arrays that belong to the user's functions changed in place?"""
  for w in NUMPY0D_CACHED:
    mm = w.mutated()
    ctx.count("cached_result_arrays_inspected", len(w._cache))
    if mm:
      r, v, now = mm[-1]
      ctx.violation("callable_result_mutated", "the array a user function returned for r=%r held %r and now holds %r: the writer changed the caller's object in place (%d of %d arrays)" % (
        r, v, now, len(mm), len(w._cache)), what="callable_result_mutated")
      return False
  return True


class FalsyCallable(object):
  """A callable that is FALSY: it has a length of 0 (numpy.poly1d of order 0 is one; so is any callable container that is
  empty).  'if func:' is not a test for 'a function was given'."""

  def __init__(self, f):
    self._f = f
    if hasattr(f, "deriv"):
      self.deriv = f.deriv
    if hasattr(f, "deriv2"):
      self.deriv2 = f.deriv2

  def __call__(self, r):
    return self._f(r)

  def __len__(self):
    return 0


class IntWhenWhole(object):
  """A plain Python callable (no derivatives) that returns an int where its value is a whole number - a capped core
  '100 if r < rc else ...' does - and a float elsewhere."""

  def __init__(self, f):
    self._f = f

  def __call__(self, r):
    v = self._f(r)
    return int(v) if v == int(v) and abs(v) < 1e15 else v


def pair_potentials_api(model, wrap=None):
  """Potential objects built through the Python API from a pair model spec."""
  if model.get("api_refit"):
    # the SAME Potential / function objects serve the throw-away write and the real one (see Refit)
    if id(model) not in REFIT["objs"]:
      m2 = dict(model)
      m2.pop("api_refit")
      REFIT["objs"][id(model)] = pair_potentials_api(m2, (lambda f, tag: Refit(wrap(f, tag))) if wrap else (lambda f, tag: Refit(f)))
    return list(REFIT["objs"][id(model)])
  from atsim.potentials import Potential
  import json
  pots = []
  shared = {}
  for a, b, node in model["pair"]:
    key = json.dumps(node, sort_keys=True)
    if model.get("share_callables") and key in shared:
      f = shared[key]          # the very same callable object serves several species pairs
    else:
      f = emit.api_callable(node, model.get("tables"))
      if str(model.get("api_results")).startswith("numpy0d"):
        f = Numpy0d(f, {"numpy0d": "fresh", "numpy0d_int": "int", "numpy0d_cached": "cached"}[model["api_results"]])
      if model.get("api_results") == "falsy_callable":
        f = FalsyCallable(f)
      if model.get("api_results") == "int_when_whole":
        f = IntWhenWhole(f)
      if wrap is not None:
        f = wrap(f, (a, b))
      shared[key] = f
    if model.get("api_variant") == "energy_override":
      # the documented interface of a potential is speciesA, speciesB, energy(r), force(r): a subclass that overrides
      # energy() (its constructor argument is a decoy) must be tabulated through energy()
      class EnergyOverride(Potential):
        def __init__(self, a_, b_, real):
          Potential.__init__(self, a_, b_, lambda r: 12345.0)
          self._real = real

        def energy(self, r):
          return self._real(r)
      pots.append(EnergyOverride(a, b, f))
    else:
      pots.append(Potential(a, b, f))
  return pots


def pair_tab_api(model, wrap=None, target=None):
  """API usage variants (model['api_variant']): potentials as a tuple, integer cutoff, keyword arguments."""
  from atsim.potentials import pair_tabulation
  target = target or model["target"]
  cls = getattr(pair_tabulation, PAIR_CLASSES[target])
  pots = pair_potentials_api(model, wrap)
  cutoff, nr = float(model["tab"]["cutoff"]), int(model["tab"]["nr"])
  v = model.get("api_variant")
  if v == "tuple":
    pots = tuple(pots)
  if v == "int_cutoff" and cutoff == int(cutoff):
    cutoff = int(cutoff)
  if v == "kwargs":
    return cls(potentials=pots, cutoff=cutoff, nr=nr)
  if v == "amend_after_write" and len(pots) >= 2 and not is_binary(target):
    # one object used for two outputs: written once with one potential missing, the model is then completed through the
    # public .potentials list; what the caller writes next must be the table of the COMPLETE model
    tab = cls(pots[:-1], cutoff, nr)
    write_tab(tab)
    tab.potentials.append(pots[-1])
    return tab
  return cls(pots, cutoff, nr)


def write_to_real_file(write, binary=False):
  """Run write(fp) against a real file object on disk (text or binary mode) and return its content."""
  fd, path = tempfile.mkstemp(prefix="out-", dir=os.environ.get("VERIF_TMP"))
  os.close(fd)
  try:
    with open(path, "wb" if binary else "w") as fp:
      write(fp)
    with open(path, "rb" if binary else "r") as fp:
      return fp.read()
  finally:
    os.unlink(path)


# ------------------------------------------------------------------ EAM through the API

REFIT = {"scale": 1.0, "objs": {}}


class Refit(object):
  """A callable whose behaviour depends on state that is refined between two writes (a fitting loop): the same object,
  first scaled by REFIT['scale'] = 0.37 (the table written then is thrown away), then by exactly 1.0."""

  def __init__(self, f):
    self._f = f
    if hasattr(f, "deriv"):
      self.deriv = lambda r: REFIT["scale"] * f.deriv(r)
    if hasattr(f, "deriv2"):
      self.deriv2 = lambda r: REFIT["scale"] * f.deriv2(r)

  def __call__(self, r):
    return REFIT["scale"] * self._f(r)


def refit_begin():
  REFIT["scale"] = 0.37
  REFIT["objs"].clear()


def refit_end():
  REFIT["scale"] = 1.0


def refit_done():
  REFIT["scale"] = 1.0
  REFIT["objs"].clear()


def eam_api_objects(model, wrap=None):
  """(pair Potential list, EAMPotential list in element order[, dipoles, quadrupoles])
  composed through the Python API.  Undeclared FS densities are given explicit zero
  functions (the API requires complete dictionaries)."""
  if model.get("api_refit"):
    # the SAME Potential / EAMPotential / function objects serve the throw-away write and the real one
    if id(model) not in REFIT["objs"]:
      m2 = dict(model)
      m2.pop("api_refit")
      REFIT["objs"][id(model)] = eam_api_objects(m2, (lambda f, tag: Refit(wrap(f, tag))) if wrap else (lambda f, tag: Refit(f)))
    return [list(x) for x in REFIT["objs"][id(model)]]
  import spec
  from atsim.potentials import Potential, EAMPotential
  from atsim.potentials import potentialforms as pf
  tables = model.get("tables")
  order = spec.eam_element_order(model)
  emb = {a: n for a, n in model["embed"]}

  import json
  shared = {}

  def mk(node, tag):
    key = json.dumps(node, sort_keys=True)
    if model.get("share_callables") and key in shared and tag[0] == shared[key][1]:
      return shared[key][0]      # one callable object serving several species / pairs of the same kind
    f = emit.api_callable(node, tables)
    if str(model.get("api_results")).startswith("numpy0d"):
      f = Numpy0d(f, {"numpy0d": "fresh", "numpy0d_int": "int", "numpy0d_cached": "cached"}[model["api_results"]])
    if model.get("api_results") == "falsy_callable":
      f = FalsyCallable(f)
    f = wrap(f, tag) if wrap else f
    shared[key] = (f, tag[0])
    return f

  eams = []
  for s in order:
    Z, mass, _ex, a0, lat = spec.eam_expected_metadata(model, s)
    if Z is None:
      Z = 1
    if mass is None:
      mass = 1.0
    ef = mk(emb.get(s, spec.ZERO), ("embed", s))
    if model["type"] == "fs":
      dd = {}
      for b in order:
        node = spec.ZERO
        for ent in model["density"]:
          if ent[0] == s and ent[1] == b:
            node = ent[2]
        dd[b] = mk(node, ("dens", s, b))
      if model.get("api_extra_density_keys"):
        # the dictionaries may describe more neighbours than are tabulated (objects of a larger model reused)
        zf = lambda r: 7.0
        dd["Zz"] = zf
        dd["Q9"] = zf
      df = OnDemandMapping(dd) if model.get("api_density_lookup") == "on_demand" else dd
    else:
      node = spec.ZERO
      for ent in model["density"]:
        if ent[0] == s:
          node = ent[1]
      df = mk(node, ("dens", s))
    ep = EAMPotential(s, Z, mass, ef, df, a0, lat)
    if model.get("api_density_lookup") == "on_demand" and model["type"] != "fs":
      ep = on_demand_eam(ep)
    eams.append(ep)

  def pots(key):
    return [Potential(a, b, mk(n, (key, a, b))) for a, b, n in model.get(key) or []]

  out = [pots("pair"), eams]
  if model["type"] == "adp":
    out += [pots("dipole"), pots("quadrupole")]
  return out


class OnDemandMapping(object):
  """species -> density function, the function object being made when it is asked for (functools.partial of one
  parametrised function is the usual way): every lookup returns a NEW callable, nothing keeps the earlier ones alive."""

  def __init__(self, d):
    self._d = d

  def __getitem__(self, k):
    import functools
    return functools.partial(_call_with, self._d[k])

  def __iter__(self):
    return iter(self._d)

  def __len__(self):
    return len(self._d)

  def __contains__(self, k):
    return k in self._d

  def keys(self):
    return self._d.keys()

  def get(self, k, default=None):
    return self[k] if k in self._d else default

  def items(self):
    return [(k, self[k]) for k in self._d]

  def values(self):
    return [self[k] for k in self._d]


def _call_with(f, x):
  return f(x)


def on_demand_eam(ep):
  """An EAMPotential whose embedding and density functions are bound methods: each attribute access yields a new object."""
  from atsim.potentials import EAMPotential

  class MethodsEAM(EAMPotential):
    def __init__(self, src):
      self.__dict__.update({k: v for k, v in src.__dict__.items() if k not in ("embeddingFunction", "electronDensityFunction")})
      self._ef, self._df = src.embeddingFunction, src.electronDensityFunction

    def embeddingFunction(self, rho):
      return self._ef(rho)

    def electronDensityFunction(self, r):
      return self._df(r)

  return MethodsEAM(ep)


def vary_containers(model, objs):
  """API usage variants (model['api_containers']): the documented examples pass lists; tuples for everything and
  one-shot iterables (generator, map) for the pair-like potentials are accepted by the original code as well.
  A one-shot iterable serves ONE write."""
  v = model.get("api_containers")
  if not v:
    return objs
  objs = list(objs)
  if v == "tuple":
    return [tuple(o) for o in objs]
  if v == "amend_after_write":
    return objs
  for i in [0] + list(range(2, len(objs))):
    seq = objs[i]
    objs[i] = (p for p in seq) if v == "generator" else map(lambda p: p, seq)
  return objs


def eam_tab_api(model, wrap=None):
  from atsim.potentials import eam_tabulation
  cls = getattr(eam_tabulation, EAM_CLASSES[model["target"]])
  objs = vary_containers(model, eam_api_objects(model, wrap))
  t = model["tab"]
  grid = (float(t["cutoff"]), int(t["nr"]), float(t["cutoff_rho"]), int(t["nrho"]))
  if model.get("api_containers") == "amend_after_write" and len(objs[0]) >= 1 and len(objs[1]) >= 1 and not is_binary(model["target"]):
    # one object used for two outputs (see pair_tab_api): first write without the last pair potential and with a stand-in
    # for the last element, then the model is completed through .potentials / .eam_potentials.  (Not for the Excel targets:
    # their documented .workbook property is built once and is meant to be kept.)
    from atsim.potentials import EAMPotential
    last = objs[1][-1]
    zero = lambda x: 0.0
    dens = dict((k_, zero) for k_ in last.electronDensityFunction) if hasattr(last.electronDensityFunction, "keys") else zero
    standin = EAMPotential(last.species, 1, 1.0, zero, dens)
    tab = cls(objs[0][:-1], objs[1][:-1] + [standin], *objs[2:], *grid)
    write_tab(tab)
    tab.potentials.append(objs[0][-1])
    tab.eam_potentials[-1] = last
    return tab
  return cls(*objs, *grid)


# ------------------------------------------------------------------ potable main() in-process

def potable_main(args, text=None, tmpdir=None, infile_name="model.aspot"):
  """Call the CLI entry point main() in this process (sys.argv patched, SystemExit caught).
  Same return shape as run_potable()."""
  import contextlib
  import logging
  from atsim.potentials.tools import potable as potable_mod
  tmpdir = tmpdir or tempfile.mkdtemp(prefix="potable-", dir=os.environ.get("VERIF_TMP"))
  argv = list(args)
  inpath = None
  if text is not None:
    inpath = os.path.join(tmpdir, infile_name)
    if isinstance(text, bytes):        # a file that is not text in the expected encoding
      with open(inpath, "wb") as f:
        f.write(text)
    else:
      with open(inpath, "w", newline="") as f:
        f.write(file_variant(text))
    argv = [inpath if a == "@IN" else a for a in argv]
  outpath = os.path.join(tmpdir, "OUT.table")
  if os.path.exists(outpath):
    os.unlink(outpath)
  argv = [outpath if a == "@OUT" else a for a in argv]
  old_argv = sys.argv
  so, se = io.StringIO(), io.StringIO()
  rc = None
  exc = None
  root = logging.getLogger()
  old_level = root.level
  old_handlers = list(root.handlers)
  try:
    sys.argv = ["potable"] + argv
    with contextlib.redirect_stdout(so), contextlib.redirect_stderr(se):
      try:
        potable_mod.main()
        rc = 0
      except SystemExit as e:
        rc = e.code if isinstance(e.code, int) else (0 if e.code is None else 1)
      except BaseException as e:  # what would be an uncaught traceback (status 1) in the real CLI
        rc = 1
        exc = e
  finally:
    sys.argv = old_argv
    for h in list(root.handlers):
      if h not in old_handlers:
        root.removeHandler(h)
    root.setLevel(logging.WARNING)
    # argparse.FileType leaves the config file open; nothing else to clean
  data = None
  exists = os.path.exists(outpath)
  if exists:
    with open(outpath, "rb") as f:
      data = f.read()
  return {"rc": rc, "out": so.getvalue(), "err": se.getvalue() + (("%s: %s" % (type(exc).__name__, exc)) if exc else ""),
          "data": data, "exists": exists, "outpath": outpath, "inpath": inpath, "tmpdir": tmpdir, "exc": exc}
