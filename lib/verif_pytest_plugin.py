"""pytest plugin (loaded with -p verif_pytest_plugin): arms the runtime contracts of the
checks named in VERIF_PLUGIN_CHECKS while the repository's own test suite runs, and dumps
their evaluation counters and failures to VERIF_PLUGIN_OUT at the end of the session."""
import importlib
import json
import os

import bootstrap  # pins atsim to the tree under test before any test imports it

_mods = {}


def pytest_configure(config):
  for name in os.environ.get("VERIF_PLUGIN_CHECKS", "").split(","):
    name = name.strip().lower()
    if not name:
      continue
    mod = importlib.import_module("checks.%s" % name)
    mod.setup_worker()
    _mods[name] = mod


def pytest_sessionfinish(session, exitstatus):
  out = {"tree": bootstrap.atsim_potentials.__file__, "exitstatus": int(exitstatus), "checks": {}}
  for name, mod in _mods.items():
    c = getattr(mod, "_contracts", None)
    if c is not None:
      out["checks"][name] = {"counts": dict(c.counts), "failures": [[f[0], str(f[1])[:500]] for f in c.failures[:20]]}
    else:
      h = getattr(mod, "_hook", None)
      out["checks"][name] = {"counts": {"view_properties": h["evals"] if h else 0}, "failures": [["view", m[:500]] for m in (h["failures"][:20] if h else [])]}
  path = os.environ.get("VERIF_PLUGIN_OUT")
  if path:
    with open(path, "w") as f:
      json.dump(out, f)
