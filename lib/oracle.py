"""Shared comparison helpers: printed tokens versus the reference model under the
tolerance model of DESIGN.md section 3.5."""
from fractions import Fraction

import mpmath as mp

import refmodel as R
from refmodel import F, mpf, RefDomainError

U = mpf(2) ** -53
H = mpf("1e-6")


def grid(cutoff, n_intervals):
  """Exact rational grid step for a float cutoff divided into n intervals."""
  return Fraction(cutoff) / n_intervals


def sample_rows(n, rng, k=40):
  """Row indices 0..n-1: all when small, else first/last few plus random ones."""
  if n <= k:
    return list(range(n))
  s = set([0, 1, 2, n - 1, n - 2, n // 2])
  while len(s) < k:
    s.add(rng.randrange(n))
  return sorted(s)


def near_break(r, breaks, eps=2.5e-6):
  r = float(r)
  for b in breaks:
    if abs(r - b) <= eps * max(1.0, abs(b)):
      return True
  return False


class ValueOracle(object):
  """Reference value / derivative of one node with tolerance bookkeeping."""

  def __init__(self, model, node, analytic=True):
    self.m = model
    self.node = node
    self.analytic = analytic
    self.breaks = sorted(set(model.breakpoints(node)))

  def value(self, r):
    return self.m.value(self.node, r)

  def deriv(self, r, n=1):
    return self.m.deriv(self.node, r, n)

  def vscale(self, r):
    r = F(r)
    return R.scale(lambda x: self.m.value(self.node, x, r), r)

  def mag(self, r):
    try:
      return self.m.mag(self.node, r)
    except RefDomainError:
      return mpf("inf")     # no magnitude bound exists at this point (e.g. ill-conditioned exponential spline): not judged

  def underflows(self, r):
    """Some intermediate of the evaluation at r lies in the range doubles flush to zero."""
    try:
      return self.m.min_subval(self.node, r) < mpf("1e-290")
    except (RefDomainError, ZeroDivisionError, ValueError, OverflowError):
      return False

  def dmag(self, r, n=1):
    """Magnitude of the terms of the n-th derivative (used with the 1e-13 factor)."""
    r = F(r)
    # terms of the n-th derivative of r^-12-like or exp(-r/0.1)-like pieces are up to (16/min(r,1))^n times the value terms
    rr = 16 * max(1 / max(abs(r), mpf("1e-6")), mpf(1))
    return self.mag(r) * rr ** n

  def dscale(self, r, n=1):
    """Magnitude used to scale the tolerance of an n-th derivative."""
    r = F(r)
    fn = lambda x: mp.diff(lambda y: self.m.value(self.node, y, r), x, n)
    s = R.scale(fn, r)
    v = self.vscale(r)
    rr = max(abs(r), mpf("1e-3"))
    return max(s, v / rr ** n)

  def num_deriv_slack(self, r, n=1):
    """Extra absolute tolerance when (part of) the derivative is a central difference
    with h = 1e-6 (rounding 64 u M / h^n + truncation)."""
    r = F(r)
    M = max(self.vscale(r), self.mag(r))   # rounding of f(r+-h/2) is relative to the cancelling terms, not to |f|
    try:
      d3 = abs(mp.diff(lambda y: self.m.value(self.node, y, r), r, n + 2))
    except Exception:
      d3 = mpf(0)
    if n == 1:
      return 64 * U * M / H + mpf("1e-12") * d3
    return 256 * U * M / H ** 2 + mpf("1e-12") * d3 + 64 * U * self.dscale(r, 1) / H


def overflow_is_out_of_domain(oracle_points, limit="1e200"):
  """After the code under test raised OverflowError: True when some (sub-)expression of the
  reference exceeds what doubles can hold on the evaluated grid - the generated model is then
  outside the usable domain of its forms and the case is not judged.
  oracle_points: iterable of (ValueOracle, iterable of r)."""
  lim = mpf(limit)
  for orc, pts in oracle_points:
    for x in pts:
      try:
        if orc.m.max_submag(orc.node, F(x)) > lim:
          return True
      except (RefDomainError, ZeroDivisionError, ValueError, OverflowError):
        return True
  return False


def on_break(r, breaks, eps=1e-11):
  """r coincides (to rounding) with a point where the function may jump."""
  return near_break(r, breaks, eps)


# nominal precision of each output format: a token must have an absolute quantum <= A or a relative quantum <= R.
# (A change of notation or MORE digits is not an alarm; fewer digits than the format has always carried is.)
PRECISION = {
  "lammps": (1e-8, 1e-9), "dlpoly_table": (None, 1.01e-7), "setfl": (None, 1.01e-16), "tabeam": (1e-6, 1e-9),
  "gulp": (1e-10, 1e-11), "funcfl": (None, 1.01e-16), "setfl_header_f": (1e-6, 1e-9),
}


def precision_ok(tok, fmt):
  """True when the printed token carries at least the precision its format has always had."""
  A, Rr = PRECISION[fmt]
  q = R.token_quantum(tok)
  try:
    v = abs(float(tok))
  except ValueError:
    return True
  if A is not None and q <= A * (1 + 1e-9):
    return True
  if v == 0:
    return ("e" in tok.lower()) or (A is None) or q <= (A or 0) * (1 + 1e-9)
  # relative quantum of an e-notation token: 10^-digits of its mantissa
  t = tok.strip().lower()
  if "e" in t:
    mant = t.split("e")[0]
    digits = len(mant.split(".")[1]) if "." in mant else 0
    return 10.0 ** (-digits) <= Rr * (1 + 1e-9)
  return q / v <= Rr


def branch_sides(orc, r):
  """Selection points to try for a grid value at r: [r] normally; on a breakpoint also just above / below."""
  r = F(r)
  if r != 0 and on_break(r, orc.breaks):
    d = max(abs(r), mpf(1)) * mpf("1e-10")
    return [r, r + d, r - d]
  return [r]


def matching_sides(orc, r, tok, factor=1, rel=1e-9, abs_=0.0):
  """Which selection points reproduce the printed value (used to tie the force to the energy's branch)."""
  r = F(r)
  out = []
  for at in branch_sides(orc, r):
    try:
      ref = orc.m.value(orc.node, r, at) * factor
      sc = R.scale(lambda x: orc.m.value(orc.node, x, at), r) * abs(factor)
      mag = orc.m.mag(orc.node, r, at) * abs(factor)
      if R.close(float(tok), ref, q=R.token_quantum(tok), sc=sc, rel=rel, abs_=abs_, mag=mag)[0]:
        out.append(at)
    except (RefDomainError, ZeroDivisionError, ValueError, OverflowError):
      pass
  return out


def check_value(ctx, kind, tok, orc, r, factor=1, rel=1e-9, abs_=0.0, where=None, count=True, fmt=None, strict=False):
  """strict: the grid is exact in double arithmetic (dyadic step), so a row ON a range start / table end is on a
  definite side and the other side's value is NOT accepted."""
  if fmt is not None and not precision_ok(tok, fmt):
    ctx.violation("precision", "%s: token %r carries fewer digits than the %s format (at %s)" % (kind, tok, fmt, where), what="precision", fmt=fmt)
    return False
  return _check_value(ctx, kind, tok, orc, r, factor, rel, abs_, where, count, strict)


def _check_value(ctx, kind, tok, orc, r, factor=1, rel=1e-9, abs_=0.0, where=None, count=True, strict=False):
  """tok == orc(r)*factor.  When r sits on a range boundary / table end (the writer's
  floating-point r and the exact grid point may fall on different sides) the value of
  either side is accepted."""
  r = F(r)
  ats = [r]
  if strict and on_break(r, orc.breaks):
    ctx.count("values_on_breakpoint_judged_strictly")
  elif r != 0 and on_break(r, orc.breaks):  # r = 0 is exact in both arithmetics: never ambiguous
    d = max(abs(r), mpf(1)) * mpf("1e-10")
    ats += [r + d, r - d]
    ctx.count("values_on_breakpoint_either_side_accepted")
  last = None
  for at in ats:
    try:
      ref = orc.m.value(orc.node, r, at) * factor
      sc = R.scale(lambda x: orc.m.value(orc.node, x, at), r) * abs(factor)
      mag = orc.m.mag(orc.node, r, at) * abs(factor)
    except (RefDomainError, ZeroDivisionError, ValueError, OverflowError):
      continue
    try:
      obs = float(tok)
    except ValueError:
      ctx.violation(kind, "not a number: %r at %s" % (tok, where), what=kind, mech="format")
      return False
    ok, diff, tol = R.close(obs, ref, q=R.token_quantum(tok), sc=sc, rel=rel, abs_=abs_, mag=mag)
    last = (ref, diff, tol)
    if ok:
      if count:
        ctx.count("values_compared")
      return True
  if last is None:
    ctx.count("out_of_domain_points")
    return True
  if orc.underflows(r):
    ctx.count("underflow_domain_points")
    return True
  if count:
    ctx.count("values_compared")
  ctx.violation(kind, "%s: observed %s, reference %s (|diff|=%.3g > tol=%.3g) at %s" % (kind, tok, mp.nstr(last[0], 15), last[1], last[2], where), what=kind)
  return False


def check_token(ctx, kind, tok, ref, sc, rel=1e-9, abs_=0.0, where=None, quantum=None, mag=0, fmt=None):
  """Compare a printed token with the reference.  Returns True if it agrees."""
  if fmt is not None and not precision_ok(tok, fmt):
    ctx.violation("precision", "%s: token %r carries fewer digits than the %s format (at %s)" % (kind, tok, fmt, where), what="precision", fmt=fmt)
    return False
  try:
    obs = float(tok)
  except ValueError:
    ctx.violation(kind, "not a number: %r at %s" % (tok, where), what=kind, mech="format")
    return False
  q = R.token_quantum(tok) if quantum is None else quantum
  if mag == mpf("inf"):
    ctx.count("out_of_domain_points")
    return True
  if obs != obs or obs in (float("inf"), float("-inf")):
    ok = False
    diff = tol = float("nan")
  else:
    ok, diff, tol = R.close(obs, ref, q=q, sc=sc, rel=rel, abs_=abs_, mag=mag)
  ctx.count("values_compared")
  if not ok:
    ctx.violation(kind, "%s: observed %s, reference %s (|diff|=%.3g > tol=%.3g) at %s" % (
      kind, tok, mp.nstr(ref, 15), diff, tol, where), what=kind)
  return ok
