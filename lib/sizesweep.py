"""Row-count sweeps: every writer is driven with cheap identifying functions f(x) = x over a SWEEP of row counts
(everything small, m*10^k, 2^k, multiples of 5000, each with its neighbours) and the emitted bytes are re-read by the
consumer-side reader: declared counts, actual counts, first / last / a few interior values.  Off-by-one behaviour that
exists only for particular sizes (blocked loops, 'n-1' comparisons, width-dependent formats) lives here."""
import io
import routes

import readers


def ident(x):
  return x


def check_tabeam(ctx, n, fs=False):
  import atsim.potentials as ap
  from atsim.potentials import Potential, EAMPotential
  step = 0.5
  out = routes.text_sink()
  for which in ("r", "rho"):
    nr, nrho = (n, 3) if which == "r" else (3, n)
    dens = {"A": ident} if fs else ident
    eam = [EAMPotential("A", 13, 26.98, ident, dens)]
    pots = [Potential("A", "A", ident)]
    out = routes.text_sink()
    (ap.writeTABEAMFinnisSinclair if fs else ap.writeTABEAM)(nrho, step, nr, step, eam, pots, out, "sizes")
    try:
      p = readers.read_tabeam(out.getvalue())
    except readers.FormatError as e:
      ctx.violation("size_format", "TABEAM nr=%d nrho=%d: %s" % (nr, nrho, e), what="size_format", size_class=size_class(n))
      return False
    for b in p["blocks"]:
      want = nrho if b["kw"] == "embe" else nr
      if b["n"] != want or len(b["values"]) != want:
        ctx.violation("size_count", "TABEAM %s block: declared %d, holds %d, expected %d (nr=%d nrho=%d)" % (b["kw"], b["n"], len(b["values"]), want, nr, nrho), what="size_count")
        return False
      for i in sorted(set([0, 1, want // 2, want - 2, want - 1])):
        if 0 <= i < want and not (abs(float(b["values"][i]) - i * step) <= 1e-6):
          ctx.violation("size_value", "TABEAM %s block of %d values: value %d is %s, expected %s" % (b["kw"], want, i, b["values"][i], i * step), what="size_value")
          return False
    ctx.count("sizes_checked")
  return True


def size_class(n):
  return "n<70" if n < 70 else ("n<1000" if n < 1000 else "n>=1000")


def check_lammps(ctx, n):
  import atsim.potentials as ap
  from atsim.potentials import Potential
  from atsim.potentials.pair_tabulation import LAMMPS_PairTabulation
  dr = 0.25
  cutoff = (n - 1) * dr
  pots = [Potential("A", "B", ident), Potential("B", "B", lambda r: 2.0 * r)]
  for route in ("class", "legacy"):
    out = routes.text_sink()
    try:
      if route == "class":
        LAMMPS_PairTabulation(pots, cutoff, n).write(out)
      else:
        ap.writePotentials("LAMMPS", pots, cutoff, n, out)
    except Exception as e:
      ctx.violation("size_exception", "LAMMPS nr=%d (%s): %s: %s" % (n, route, type(e).__name__, e), what="size_exception", exc=type(e).__name__)
      return False
    try:
      secs = readers.read_lammps_table(out.getvalue())
    except readers.FormatError as e:
      ctx.violation("size_format", "LAMMPS nr=%d (%s): %s" % (n, route, e), what="size_format")
      return False
    if len(secs) != 2:
      ctx.violation("size_count", "LAMMPS nr=%d: %d blocks" % (n, len(secs)), what="size_count")
      return False
    for k, s in enumerate(secs):
      N = n - 1
      if s["N"] != N or len(s["rows"]) != N:
        ctx.violation("size_count", "LAMMPS nr=%d (%s): header N=%d, rows=%d, expected %d" % (n, route, s["N"], len(s["rows"]), N), what="size_count")
        return False
      for i in sorted(set([0, 1, N // 2, N - 2, N - 1])):
        if 0 <= i < N:
          row = s["rows"][i]
          r = (i + 1) * dr
          if row[0] != str(i + 1) or not (abs(float(row[1]) - r) <= 1e-8 and abs(float(row[2]) - (k + 1) * r) <= 1e-7 * max(1.0, r) and abs(float(row[3]) + (k + 1)) <= 1e-4):
            ctx.violation("size_value", "LAMMPS nr=%d (%s) block %d row %d: %s" % (n, route, k, i + 1, row), what="size_value")
            return False
      if not (abs(float(s["lo_tok"]) - dr) <= 1e-8 and abs(float(s["hi_tok"]) - cutoff) <= 1e-8):
        ctx.violation("size_value", "LAMMPS nr=%d header R %s %s" % (n, s["lo_tok"], s["hi_tok"]), what="size_value")
        return False
    ctx.count("sizes_checked")
  return True


def check_dlpoly(ctx, n):
  """n must be a multiple of 4."""
  import atsim.potentials as ap
  from atsim.potentials import Potential
  from atsim.potentials.pair_tabulation import DLPoly_PairTabulation
  delpot = 0.25
  cutoff = (n - 4) * delpot
  if cutoff <= 0:
    return True
  pots = [Potential("A", "B", ident), Potential("B", "B", lambda r: 2.0 * r)]
  for route in ("class", "legacy"):
    out = routes.text_sink()
    if route == "class":
      DLPoly_PairTabulation(pots, cutoff, n).write(out)
    else:
      ap.writePotentials("DL_POLY", pots, cutoff, n, out)
    try:
      p = readers.read_dlpoly_table(out.getvalue())
    except readers.FormatError as e:
      ctx.violation("size_format", "DL_POLY nr=%d (%s): %s" % (n, route, e), what="size_format")
      return False
    if p["ngrid"] != n or len(p["blocks"]) != 2:
      ctx.violation("size_count", "DL_POLY nr=%d (%s): ngrid=%s blocks=%d" % (n, route, p["ngrid"], len(p["blocks"])), what="size_count")
      return False
    for k, b in enumerate(p["blocks"]):
      if len(b["energies"]) != n or len(b["forces"]) != n:
        ctx.violation("size_count", "DL_POLY nr=%d (%s): %d energies, %d forces" % (n, route, len(b["energies"]), len(b["forces"])), what="size_count")
        return False
      for i in sorted(set([0, 1, n // 2, n - 2, n - 1])):
        r = (i + 1) * delpot
        if not (abs(float(b["energies"][i]) - (k + 1) * r) <= 2e-7 * r and abs(float(b["forces"][i]) + (k + 1) * r) <= 1e-4 * r):
          ctx.violation("size_value", "DL_POLY nr=%d (%s) block %d point %d: E=%s F=%s expected %s %s" % (n, route, k, i + 1, b["energies"][i], b["forces"][i], (k + 1) * r, -(k + 1) * r), what="size_value")
          return False
    ctx.count("sizes_checked")
  return True


def check_dlpoly_many(ctx, n, npots):
  """A DL_POLY TABLE of MANY long blocks (tens of megabytes in all): every block complete, in place and with its own values -
  whatever the writer does with the finished blocks while it works on the next (seeded change C02r10 handed them on past
  16 Mi characters and left padding between the blocks that followed).  n must be a multiple of 4."""
  from atsim.potentials import Potential
  from atsim.potentials.pair_tabulation import DLPoly_PairTabulation
  delpot = 0.25
  cutoff = (n - 4) * delpot
  pots = []
  for k in range(npots):
    f = (lambda r, k=k: (k + 1.0) * r)
    pots.append(Potential("A%d" % k, "B", f))
  out = io.StringIO()
  DLPoly_PairTabulation(pots, cutoff, n).write(out)
  text = out.getvalue()
  ctx.count("many_long_blocks_chars", len(text))
  if "\x00" in text:
    ctx.violation("size_format", "DL_POLY %d blocks of %d rows: %d NUL characters in the table" % (npots, n, text.count("\x00")), what="size_format")
    return False
  try:
    p = readers.read_dlpoly_table(text)
  except readers.FormatError as e:
    ctx.violation("size_format", "DL_POLY %d blocks of %d rows: %s" % (npots, n, e), what="size_format")
    return False
  if p["ngrid"] != n or len(p["blocks"]) != npots:
    ctx.violation("size_count", "DL_POLY %d blocks of %d rows: ngrid=%s blocks=%d" % (npots, n, p["ngrid"], len(p["blocks"])), what="size_count")
    return False
  for k, b in enumerate(p["blocks"]):
    if len(b["energies"]) != n or len(b["forces"]) != n:
      ctx.violation("size_count", "DL_POLY %d blocks of %d rows: block %d has %d energies, %d forces" % (npots, n, k, len(b["energies"]), len(b["forces"])), what="size_count")
      return False
    for i in sorted(set([0, 1, n // 2, n - 2, n - 1])):
      r = (i + 1) * delpot
      if not (abs(float(b["energies"][i]) - (k + 1) * r) <= 2e-7 * r and abs(float(b["forces"][i]) + (k + 1) * r) <= 1e-4 * r):
        ctx.violation("size_value", "DL_POLY %d blocks of %d rows, block %d point %d: E=%s F=%s expected %s %s" % (npots, n, k, i + 1, b["energies"][i], b["forces"][i], (k + 1) * r, -(k + 1) * r), what="size_value")
        return False
  ctx.count("sizes_checked")
  return True


def check_setfl(ctx, n, fs=False):
  import atsim.potentials as ap
  from atsim.potentials import Potential, EAMPotential
  step = 0.5
  for which in ("r", "rho"):
    nr, nrho = (n, 3) if which == "r" else (3, n)
    dens = {"Al": ident} if fs else ident
    eam = [EAMPotential("Al", 13, 26.98, ident, dens, 4.05, "fcc")]
    pots = [Potential("Al", "Al", ident)]
    out = routes.text_sink()
    (ap.writeSetFLFinnisSinclair if fs else ap.writeSetFL)(nrho, step, nr, step, eam, pots, out)
    try:
      p = readers.read_setfl(out.getvalue(), fs=fs)
    except readers.FormatError as e:
      ctx.violation("size_format", "setfl%s nr=%d nrho=%d: %s" % ("_fs" if fs else "", nr, nrho, e), what="size_format")
      return False
    if p["nr"] != nr or p["nrho"] != nrho:
      ctx.violation("size_count", "setfl header nrho=%s nr=%s, expected %d %d" % (p["nrho"], p["nr"], nrho, nr), what="size_count")
      return False
    el = p["elements"][0]
    rho = el["rho"][0] if fs else el["rho"]
    for name, toks, want, sq in (("F", el["F"], nrho, False), ("rho", rho, nr, False), ("r*phi", p["rphi"][(0, 0)], nr, True)):
      if len(toks) != want:
        ctx.violation("size_count", "setfl %s holds %d values, expected %d" % (name, len(toks), want), what="size_count")
        return False
      for i in sorted(set([0, 1, want // 2, want - 2, want - 1])):
        x = i * step
        ref = x * x if sq else x
        if 0 <= i < want and not (abs(float(toks[i]) - ref) <= 1e-9 * max(1.0, ref)):
          ctx.violation("size_value", "setfl %s[%d] = %s, expected %s (n=%d)" % (name, i, toks[i], ref, want), what="size_value")
          return False
    ctx.count("sizes_checked")
  return True


def check_gulp(ctx, n):
  from atsim.potentials import Potential
  from atsim.potentials.pair_tabulation import GULP_PairTabulation
  dr = 0.25
  cutoff = (n - 1) * dr
  out = routes.text_sink()
  GULP_PairTabulation([Potential("A", "B", ident), Potential("B", "B", lambda r: 2.0 * r)], cutoff, n).write(out)
  try:
    blocks = readers.read_gulp(out.getvalue())
  except readers.FormatError as e:
    ctx.violation("size_format", "GULP nr=%d: %s" % (n, e), what="size_format")
    return False
  if len(blocks) != 2:
    ctx.violation("size_count", "GULP nr=%d: %d blocks" % (n, len(blocks)), what="size_count")
    return False
  for k, b in enumerate(blocks):
    rows = b["rows"]
    if len(rows) != n:
      ctx.violation("size_count", "GULP nr=%d: block %d has %d rows" % (n, k, len(rows)), what="size_count")
      return False
    for i in sorted(set([0, 1, n // 2, n - 2, n - 1])):
      r = i * dr
      if 0 <= i < n and not (abs(float(rows[i][1]) - r) <= 1e-9 * max(1.0, r) and abs(float(rows[i][0]) - (k + 1) * r) <= 1e-9 * max(1.0, r)):
        ctx.violation("size_value", "GULP nr=%d block %d row %d: %s" % (n, k, i, rows[i]), what="size_value")
        return False
  ctx.count("sizes_checked")
  return True
