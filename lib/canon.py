"""Fresh-process canon for C12: builds each model once, writes it once, evaluates the
requested functions, and prints everything as JSON (bytes as hex, floats as float.hex).
Run as: python canon.py JOB.json   (JOB: {"models":[{"model":spec,"route":"potable"|"api"}], "evals":[[mi, tag, r],...]})"""
import json
import sys

import bootstrap  # noqa  (pins the tree)
import emit
import routes


def build(entry):
  m = entry["model"]
  if entry["route"] == "potable":
    return routes.read_config(emit.model_text(m))
  if m["type"] == "pair":
    return routes.pair_tab_api(m)
  return routes.eam_tab_api(m)


def functions(tab):
  """tag -> callable(r) for every function of a tabulation, in a route-independent naming."""
  out = {}
  for i, p in enumerate(tab.potentials):
    out["pair:%d:energy" % i] = p.energy
    out["pair:%d:force" % i] = p.force
  for ep in getattr(tab, "eam_potentials", []):
    out["embed:%s" % ep.species] = ep.embeddingFunction
    d = ep.electronDensityFunction
    if isinstance(d, dict):
      for k, f in d.items():
        out["dens:%s:%s" % (ep.species, k)] = f
    else:
      out["dens:%s" % ep.species] = d
  for key in ("dipole_potentials", "quadrupole_potentials"):
    for i, p in enumerate(getattr(tab, key, []) or []):
      out["%s:%d:energy" % (key, i)] = p.energy
  return out


def hexval(v):
  try:
    return float(v).hex()
  except Exception as e:
    return "ERR:%s" % type(e).__name__


def main():
  job = json.load(open(sys.argv[1]))
  res = {"bytes": [], "evals": [], "tags": []}
  tabs = []
  for entry in job["models"]:
    try:
      tab = build(entry)
      out = routes.write_tab(tab)
      res["bytes"].append((out if isinstance(out, bytes) else out.encode()).hex())
      tabs.append(tab)
      res["tags"].append(sorted(functions(tab)))
    except Exception as e:
      res["bytes"].append("ERR:%s:%s" % (type(e).__name__, str(e)[:100]))
      tabs.append(None)
      res["tags"].append([])
  # evaluations are done on FRESH objects so that nothing the write did can matter
  fresh = [build(e) if t is not None else None for e, t in zip(job["models"], tabs)]
  for mi, tag, r in job["evals"]:
    if fresh[mi] is None:
      res["evals"].append("ERR:nomodel")
      continue
    try:
      res["evals"].append(hexval(functions(fresh[mi])[tag](r)))
    except Exception as e:
      res["evals"].append("ERR:%s" % type(e).__name__)
  sys.stdout.write(json.dumps(res))


if __name__ == "__main__":
  main()
