"""Independent reference model of the model language, in mpmath (40 digits).

Written from docs/reference/potential_forms.rst, potential_modifiers.rst and the user
guide; shares no code with the repository.  Derivatives are obtained with mpmath.diff
of the reference *value*, so there is no second hand-written derivative.

A node is JSON (see spec.py).  `Model` carries the [Potential-Form] and [Table-Form]
definitions a node may refer to.
"""
import math
from fractions import Fraction

import mpmath as mp

mp.mp.dps = 40
mpf = mp.mpf


class RefDomainError(Exception):
  """The reference itself is undefined at this point (outside the form's domain)."""


def F(x):
  """float/int/str -> exact mpf."""
  if isinstance(x, mp.mpf):
    return x
  if isinstance(x, Fraction):
    return mpf(x.numerator) / mpf(x.denominator)
  if isinstance(x, str):
    return mpf(float(x))
  return mpf(x)


# ------------------------------------------------------------------ built-in forms
# each returns the list of additive terms (value = sum, magnitude = sum |t|)

def _tt_f2n(x, n):
  s = mpf(0)
  for k in range(2 * n + 1):
    s += x ** k / mp.factorial(k)
  return 1 - mp.exp(-x) * s


def form_terms(name, p, r):
  p = [F(v) for v in p]
  if name == "buck":
    A, rho, C = p
    return [A * mp.exp(-r / rho), -C / r ** 6]
  if name == "bornmayer":
    A, rho = p
    return [A * mp.exp(-r / rho)]
  if name == "coul":
    qi, qj = p
    return [qi * qj / (4 * mp.pi * mpf("0.0055264") * r)]
  if name == "constant":
    return [p[0]]
  if name == "exponential":
    A, n = p
    return [A * r ** n]
  if name == "hbnd":
    A, B = p
    return [A / r ** 12, -B / r ** 10]
  if name == "lj":
    eps, sig = p
    return [4 * eps * sig ** 12 / r ** 12, -4 * eps * sig ** 6 / r ** 6]
  if name == "morse":
    gamma, rstar, D = p
    return [D * mp.exp(-2 * gamma * (r - rstar)), -2 * D * mp.exp(-gamma * (r - rstar))]
  if name == "polynomial":
    return [c * r ** i for i, c in enumerate(p)] or [mpf(0)]
  if name == "sqrt":
    return [p[0] * mp.sqrt(r)]
  if name == "tang_toennies":
    A, b, C6, C8, C10 = p
    R = r / mpf("0.5292")
    h = mpf("27.211")
    # each damped dispersion term is split into its two cancelling pieces so that the
    # magnitude (sum |terms|) reflects the cancellation double arithmetic suffers at small r
    out = [h * A * mp.exp(-b * R)]
    for n, C in ((3, C6), (4, C8), (5, C10)):
      out.append(-h * C / R ** (2 * n))
      out.append(h * C / R ** (2 * n) * (1 - _tt_f2n(b * R, n)))
    return out
  if name == "zbl":
    z1, z2 = p
    a = (mpf("0.8854") * mpf("0.529")) / (z1 ** mpf("0.23") + z2 ** mpf("0.23"))
    pre = mpf("14.39942") * z1 * z2 / r
    ck = ["0.1818", "0.5099", "0.2802", "0.02817"]
    bk = ["3.2", "0.9423", "0.4029", "0.2016"]
    return [pre * mpf(c) * mp.exp(-mpf(b) * r / a) for c, b in zip(ck, bk)]
  if name == "zbl_rst":  # the 5-digit constants quoted in potential_forms.rst
    z1, z2 = p
    a = mpf("0.46850") / (z1 ** mpf("0.23") + z2 ** mpf("0.23"))
    pre = mpf("14.39942") * z1 * z2 / r
    ck = ["0.18175", "0.50986", "0.28022", "0.02817"]
    bk = ["3.19980", "0.94229", "0.40290", "0.20162"]
    return [pre * mpf(c) * mp.exp(-mpf(b) * r / a) for c, b in zip(ck, bk)]
  if name == "zero":
    return [mpf(0)]
  if name == "exp_spline":
    B = p[:6]
    C = p[6]
    return [mp.exp(sum(B[i] * r ** i for i in range(6))), C]
  raise KeyError(name)


FORM_ARITY = {"buck": 3, "bornmayer": 2, "coul": 2, "constant": 1, "exponential": 2, "hbnd": 2, "lj": 2,
              "morse": 3, "polynomial": None, "sqrt": 1, "tang_toennies": 5, "zbl": 2, "zero": 0,
              "exp_spline": 7}


# ------------------------------------------------------------------ range selection

def select_range(parts, r):
  """Reference selector of C08.  parts = [(marker, start, payload)...] in any order.
  Returns the index of the selected part or None (below every range).
  Among ranges that admit r (r > s, or r >= s when inclusive) the greatest start
  wins; between an inclusive and an exclusive range sharing that start: at r == s
  only the inclusive one admits r; for r > s the *later-starting in the sorted order*
  i.e. the exclusive one is what the repository's own pinned test selects - the caller
  may ask for the tie set through select_range_candidates()."""
  c = select_range_candidates(parts, r)
  if not c:
    return None
  # prefer '>' among ties (see DESIGN.md section 6); callers that accept either use the candidates
  for i in c:
    if parts[i][0] == ">":
      return i
  return c[0]


def select_range_candidates(parts, r):
  best = None
  for i, (marker, s, _p) in enumerate(parts):
    s = F(s)
    ok = (r > s) or (marker == ">=" and r == s)
    if not ok:
      continue
    if best is None or s > best:
      best = s
  if best is None:
    return []
  out = []
  for i, (marker, s, _p) in enumerate(parts):
    s = F(s)
    if s == best and ((r > s) or (marker == ">=" and r == s)):
      out.append(i)
  return out


# ------------------------------------------------------------------ splines

def _deriv_n(f, x, n):
  if n == 0:
    return f(x)
  return mp.diff(f, x, n)


def const_whole_exponent(node, at=None):
  """n when the node is pow(X, as.constant n) with a whole-number n, else None.  (In a potable file the exponent is a
  definition of its own, i.e. the constant wrapped in its default range '>0': seen through when `at` lies inside it.)"""
  a = node.get("a") or []
  if len(a) != 2:
    return None
  e = a[1]
  while e.get("k") == "ranges" and len(e["parts"]) == 1 and at is not None:
    m_, s_, sub = e["parts"][0]
    if select_range([(m_, s_, None)], F(at)) is None:
      return None
    e = sub
  if e.get("k") == "form" and e.get("name") == "constant":
    v = e["p"][0]
    if float(v) == int(float(v)):
      return int(float(v))
  return None


def exp_spline_coeffs(fs, fe, rd, ra):
  """Reference solve of the 6x6 system for exp(B0..B5 poly)+C joining fs at rd to fe at ra."""
  sx, ex = F(rd), F(ra)
  sy, sd, sdd = fs(sx), mp.diff(fs, sx, 1), mp.diff(fs, sx, 2)
  ey, ed, edd = fe(ex), mp.diff(fe, ex, 1), mp.diff(fe, ex, 2)
  inter = mpf(0)
  if sy <= 0 or ey <= 0:
    inter = 1 - min(sy, ey)
    sy += inter
    ey += inter
    inter = -inter
  A = mp.matrix([
    [1, sx, sx ** 2, sx ** 3, sx ** 4, sx ** 5],
    [1, ex, ex ** 2, ex ** 3, ex ** 4, ex ** 5],
    [0, 1, 2 * sx, 3 * sx ** 2, 4 * sx ** 3, 5 * sx ** 4],
    [0, 1, 2 * ex, 3 * ex ** 2, 4 * ex ** 3, 5 * ex ** 4],
    [0, 0, 2, 6 * sx, 12 * sx ** 2, 20 * sx ** 3],
    [0, 0, 2, 6 * ex, 12 * ex ** 2, 20 * ex ** 3]])
  B = mp.matrix([mp.log(sy), mp.log(ey), sd / sy, ed / ey,
                 sdd / sy - (sd / sy) ** 2, edd / ey - (ed / ey) ** 2])
  x = mp.lu_solve(A, B)
  cond = mp.mnorm(A, 1) * mp.mnorm(mp.inverse(A), 1)
  return [x[i] for i in range(6)] + [inter], cond


def buck4_coeffs(fs, fe, rd, rm, ra):
  d, m, a = F(rd), F(rm), F(ra)
  rows = [
    [1, d, d ** 2, d ** 3, d ** 4, d ** 5, 0, 0, 0, 0],
    [0, 1, 2 * d, 3 * d ** 2, 4 * d ** 3, 5 * d ** 4, 0, 0, 0, 0],
    [0, 0, 2, 6 * d, 12 * d ** 2, 20 * d ** 3, 0, 0, 0, 0],
    [0, 1, 2 * m, 3 * m ** 2, 4 * m ** 3, 5 * m ** 4, 0, 0, 0, 0],
    [1, m, m ** 2, m ** 3, m ** 4, m ** 5, -1, -m, -m ** 2, -m ** 3],
    [0, 1, 2 * m, 3 * m ** 2, 4 * m ** 3, 5 * m ** 4, 0, -1, -2 * m, -3 * m ** 2],
    [0, 0, 2, 6 * m, 12 * m ** 2, 20 * m ** 3, 0, 0, -2, -6 * m],
    [0, 0, 0, 0, 0, 0, 1, a, a ** 2, a ** 3],
    [0, 0, 0, 0, 0, 0, 0, 1, 2 * a, 3 * a ** 2],
    [0, 0, 0, 0, 0, 0, 0, 0, 2, 6 * a]]
  A = mp.matrix(rows)
  V = mp.matrix([fs(d), mp.diff(fs, d, 1), mp.diff(fs, d, 2), 0, 0, 0, 0,
                 fe(a), mp.diff(fe, a, 1), mp.diff(fe, a, 2)])
  x = mp.lu_solve(A, V)
  cond = mp.mnorm(A, 1) * mp.mnorm(mp.inverse(A), 1)
  return [x[i] for i in range(10)], cond


# ------------------------------------------------------------------ formula AST

_PYMATH1 = {"exp": mp.exp, "sqrt": mp.sqrt, "sin": mp.sin, "cos": mp.cos, "tan": mp.tan, "atan": mp.atan,
            "sinh": mp.sinh, "cosh": mp.cosh, "tanh": mp.tanh, "asinh": mp.asinh, "log1p": lambda x: mp.log(1 + x),
            "log10": mp.log10, "log2": lambda x: mp.log(x, 2), "fabs": abs, "acos": mp.acos,
            "acosh": mp.acosh, "atanh": mp.atanh}
_EXPRTK1 = {"exp": mp.exp, "sqrt": mp.sqrt, "sin": mp.sin, "cos": mp.cos, "abs": abs, "log": mp.log,
            "tanh": mp.tanh, "erfc": mp.erfc, "erf": mp.erf, "cosh": mp.cosh, "sinh": mp.sinh}


class Model(object):
  """Holds the custom-form and table-form definitions of one model.

  Every evaluation takes the point r and a *selection point* `at` (default r): all
  piecewise choices (range selection, spline region, table interval, if()) are made at
  `at`, so that x -> value(node, x, at=r0) is a smooth function around r0 whose
  mpmath.diff gives the one-sided derivative the selected branch has at r0."""

  def __init__(self, forms=None, tables=None):
    self.forms = {f["name"]: f for f in (forms or [])}
    self.tables = {t["name"]: t for t in (tables or [])}
    self._table_cache = {}
    self._spl = {}

  # ---- formula evaluation
  def eval_expr(self, e, env, env_at=None):
    if env_at is None:
      env_at = env
    op = e[0]
    if op == "assign_then":
      # exprtk statement list 'name := expr; body': the assignment holds for the rest of THIS evaluation only
      def _assigned(en):
        en2 = dict(en)
        key = e[1]
        for k_ in en:
          if k_.lower() == e[1].lower():
            key = k_
        en2[key] = self.eval_expr(e[2], en)
        return en2
      env2 = _assigned(env)
      return self.eval_expr(e[3], env2, env2 if env_at is env else _assigned(env_at))
    if op == "num":
      return F(e[1])
    if op == "var":
      try:
        return env[e[1]]
      except KeyError:
        # exprtk resolves symbols case-insensitively: 'a' in a formula is the parameter 'A' of its signature
        for k_, v_ in env.items():
          if k_.lower() == e[1].lower():
            return v_
        raise
    if op == "neg":
      return -self.eval_expr(e[1], env, env_at)
    if op in "+-*/^":
      a = self.eval_expr(e[1], env, env_at)
      b = self.eval_expr(e[2], env, env_at)
      if op == "+":
        return a + b
      if op == "-":
        return a - b
      if op == "*":
        return a * b
      if op == "/":
        if b == 0:
          raise RefDomainError("division by zero")
        return a / b
      if a < 0 and b != int(b):
        raise RefDomainError("negative base")
      if a == 0 and b < 0:
        raise RefDomainError("0^neg")
      return a ** b
    if op == "if":
      c = e[1]
      x = self.eval_expr(c[1], env_at)
      y = self.eval_expr(c[2], env_at)
      t = {"<": x < y, ">": x > y, "<=": x <= y, ">=": x >= y}[c[0]]
      return self.eval_expr(e[2] if t else e[3], env, env_at)
    if op == "call":
      name = e[1]
      args = [self.eval_expr(a, env, env_at) for a in e[2]]
      args_at = args if env_at is env else [self.eval_expr(a, env_at) for a in e[2]]
      return self.call(name, args, args_at)
    raise KeyError(op)

  def call(self, name, args, args_at=None):
    if args_at is None:
      args_at = args
    if name.startswith("pymath."):
      fn = name[7:]
      try:
        if fn in _PYMATH1:
          v = _PYMATH1[fn](*args)
          if isinstance(v, mp.mpc):
            raise RefDomainError("complex")
          return v
        if fn == "pow":
          return args[0] ** args[1]
        if fn == "hypot":
          return mp.sqrt(args[0] ** 2 + args[1] ** 2)
        if fn == "atan2":
          return mp.atan2(args[0], args[1])
        if fn == "log":
          if args[0] <= 0:
            raise RefDomainError("log")
          return mp.log(*args)
        if fn == "fsum":
          return sum(args, mpf(0))
        if fn == "degrees":
          return args[0] * 180 / mp.pi
        if fn == "radians":
          return args[0] * mp.pi / 180
        if fn == "copysign":
          return abs(args[0]) if args_at[1] >= 0 else -abs(args[0])
        if fn == "floor":
          return mp.floor(args_at[0])
        if fn == "ceil":
          return mp.ceil(args_at[0])
      except (ValueError, ZeroDivisionError) as ex:
        raise RefDomainError(str(ex))
      raise KeyError(name)
    if name.startswith("as."):
      return self.form_value(name[3:], args[1:], args[0])
    if name in self.forms:
      f = self.forms[name]
      if len(args) != len(f["params"]):
        raise RefDomainError("arity")
      env = dict(zip(f["params"], args))
      env_at = dict(zip(f["params"], args_at))
      return self.eval_expr(f["expr"], env, env_at)
    if name in self.tables:
      return self.table_value(name, args[0], args_at[0])
    if name in _EXPRTK1:
      try:
        v = _EXPRTK1[name](*args)
      except (ValueError, ZeroDivisionError) as ex:
        raise RefDomainError(str(ex))
      if isinstance(v, mp.mpc):
        raise RefDomainError("complex")
      return v
    raise KeyError(name)

  def form_value(self, name, p, r):
    try:
      v = sum(form_terms(name, p, r), mpf(0))
    except ZeroDivisionError:
      raise RefDomainError("singular")
    if isinstance(v, mp.mpc):
      raise RefDomainError("complex")
    return v

  # ---- table forms: piecewise cubic built by FITPACK (scipy) from the *spec data*,
  # evaluated in mpmath so that it can be differentiated and frozen to one interval.
  def _table(self, name):
    if name not in self._table_cache:
      from scipy.interpolate import InterpolatedUnivariateSpline, PPoly
      t = self.tables[name]
      xs = [float(v) for v in t["x"]]
      ys = [float(v) for v in t["y"]]
      s = InterpolatedUnivariateSpline(xs, ys, k=3, ext=1)
      pp = PPoly.from_spline(s._eval_args)
      # drop the repeated boundary knots (zero-length intervals)
      segs = []
      for i in range(len(pp.x) - 1):
        if pp.x[i + 1] > pp.x[i]:
          segs.append((float(pp.x[i]), float(pp.x[i + 1]), [float(c) for c in pp.c[:, i]]))
      self._table_cache[name] = (xs[0], xs[-1], segs)
    return self._table_cache[name]

  def table_value(self, name, r, at=None):
    if at is None:
      at = r
    lo, hi, segs = self._table(name)
    if at < lo or at > hi:
      return mpf(0)
    seg = segs[-1]
    for sgm in segs:
      if at < sgm[1]:
        seg = sgm
        break
    x0 = F(seg[0])
    d = r - x0
    c = seg[2]
    v = mpf(0)
    for ck in c:
      v = v * d + F(ck)
    return v

  # ---- nodes
  def value(self, node, r, at=None):
    """Value of node at r (mpf), piecewise selections made at `at`."""
    r = F(r)
    at = r if at is None else F(at)
    k = node["k"]
    if k == "form":
      return self.form_value(node["name"], node["p"], r)
    if k == "sum":
      return sum((self.value(a, r, at) for a in node["a"]), mpf(0))
    if k == "product":
      v = mpf(1)
      for a in node["a"]:
        v *= self.value(a, r, at)
      return v
    if k == "pow":
      n_ = const_whole_exponent(node, at)
      if n_ is not None:
        # a constant whole-number power is defined for every base (0**negative excepted)
        base = self.value(node["a"][0], r, at)
        if base == 0 and n_ < 0:
          raise RefDomainError("0 ** negative")
        return base ** n_
      vals = [self.value(a, r, at) for a in node["a"]]
      v = vals[0]
      for b in vals[1:]:
        if v == 0 and b > 0:
          v = mpf(0)          # 0 ** positive is 0 (a base that is switched off: as.zero, beyond its last range)
          continue
        if v <= 0:
          raise RefDomainError("pow base <= 0")
        v = v ** b
      return v
    if k == "trans":
      x = F(node["x"])
      return self.value(node["f"], r + x, at + x)
    if k == "ranges":
      parts = node["parts"]
      i = select_range([(m, s, None) for m, s, _ in parts], at)
      if i is None:
        return mpf(0)
      return self.value(parts[i][2], r, at)
    if k == "custom":
      f = self.forms[node["name"]]
      pa = [F(a) for a in node["args"]]
      env = dict(zip(f["params"], [r] + pa))
      env_at = dict(zip(f["params"], [at] + pa))
      return self.eval_expr(f["expr"], env, env_at)
    if k == "table":
      return self.table_value(node["name"], r, at)
    if k == "spline":
      return self._spline_value(node, r, at)
    if k == "buck4":
      return self._spline_value(self._buck4_as_spline(node), r, at)
    if k == "py":
      return self.eval_expr(node["expr"], {"r": r}, {"r": at})
    raise KeyError(k)

  def _buck4_as_spline(self, node):
    key = ("b4", id(node))
    if key not in self._spl:
      A, rho, C, rd, rm, ra = node["p"]
      self._spl[key] = ({"k": "spline", "kind": "buck4_spline", "rmin": rm, "rd": rd, "ra": ra,
                         "start": {"k": "form", "name": "bornmayer", "p": [A, rho]},
                         "end": {"k": "form", "name": "buck", "p": [0.0, 1.0, C]}, "s0": ["-inf"]}, node)
    return self._spl[key][0]

  def spline_info(self, node):
    if node["k"] == "buck4":
      node = self._buck4_as_spline(node)
    key = id(node)
    if key not in self._spl:
      fs = lambda x: self.value(node["start"], x, F(node["rd"]))
      fe = lambda x: self.value(node["end"], x, F(node["ra"]))
      if node["kind"] == "exp_spline":
        co, cond = exp_spline_coeffs(fs, fe, node["rd"], node["ra"])
      else:
        co, cond = buck4_coeffs(fs, fe, node["rd"], node["rmin"], node["ra"])
      self._spl[key] = (co, cond, node)
    return self._spl[key][0], self._spl[key][1]

  def _spline_value(self, node, r, at):
    rd, ra = F(node["rd"]), F(node["ra"])
    if at <= rd:
      s0 = node.get("s0")
      if s0 and s0[0] != "-inf":
        marker, start = s0
        start = F(start)
        if not (at > start or (marker == ">=" and at == start)):
          return mpf(0)
      return self.value(node["start"], r, at)
    if at >= ra:
      return self.value(node["end"], r, at)
    co, _ = self.spline_info(node)
    if node["kind"] == "exp_spline":
      return mp.exp(sum(co[i] * r ** i for i in range(6))) + co[6]
    if at < F(node["rmin"]):
      return sum(co[i] * r ** i for i in range(6))
    return sum(co[6 + i] * r ** i for i in range(4))

  # ---- magnitudes: M >= |value| such that double arithmetic errs by ~ u*M
  def form_mag(self, name, p, r):
    try:
      return sum((abs(t) for t in form_terms(name, p, r)), mpf(0))
    except (ZeroDivisionError, TypeError):
      raise RefDomainError("singular")

  def _pow_mag(self, a, Ma, b, Mb):
    if a <= 0:
      raise RefDomainError("pow base")
    v = abs(a ** b)
    return v * max(mpf(1), abs(b) * Ma / abs(a) + abs(mp.log(a)) * Mb)

  def expr_mag(self, e, env, env_at=None):
    """(value, magnitude) of a formula."""
    if env_at is None:
      env_at = env
    op = e[0]
    if op == "assign_then":
      def _assigned(en):
        en2 = dict(en)
        key = e[1]
        for k_ in en:
          if k_.lower() == e[1].lower():
            key = k_
        en2[key] = self.eval_expr(e[2], en)
        return en2
      env2 = _assigned(env)
      return self.expr_mag(e[3], env2, env2 if env_at is env else _assigned(env_at))
    if op in ("num", "var"):
      v = self.eval_expr(e, env, env_at)
      return v, abs(v)
    if op == "neg":
      v, m = self.expr_mag(e[1], env, env_at)
      return -v, m
    if op in "+-*/^":
      a, Ma = self.expr_mag(e[1], env, env_at)
      b, Mb = self.expr_mag(e[2], env, env_at)
      if op == "+":
        return a + b, Ma + Mb
      if op == "-":
        return a - b, Ma + Mb
      if op == "*":
        return a * b, Ma * Mb
      if op == "/":
        if b == 0:
          raise RefDomainError("division by zero")
        return a / b, Ma * Mb / (b * b)
      v = self.eval_expr(e, env, env_at)
      if a > 0:
        return v, self._pow_mag(a, Ma, b, Mb)
      return v, abs(v) * max(mpf(1), abs(b) * (Ma / abs(a) if a != 0 else 1))
    if op == "if":
      c = e[1]
      x = self.eval_expr(c[1], env_at)
      y = self.eval_expr(c[2], env_at)
      t = {"<": x < y, ">": x > y, "<=": x <= y, ">=": x >= y}[c[0]]
      return self.expr_mag(e[2] if t else e[3], env, env_at)
    if op == "call":
      name = e[1]
      v = self.eval_expr(e, env, env_at)
      pairs = [self.expr_mag(a, env, env_at) for a in e[2]]
      if name.startswith("as."):
        return v, self.form_mag(name[3:], [p[0] for p in pairs[1:]], pairs[0][0])
      if name in self.forms:
        f = self.forms[name]
        env2 = dict(zip(f["params"], [p[0] for p in pairs]))
        at2 = dict(zip(f["params"], [self.eval_expr(a, env_at) for a in e[2]]))
        return self.expr_mag(f["expr"], env2, at2)
      if name in self.tables:
        t = self.tables[name]
        return v, abs(v) + max(abs(float(y)) for y in t["y"])
      m = abs(v)
      # unary / n-ary elementary function: |f'(x)| * M_x by finite differences
      for i, (x, Mx) in enumerate(pairs):
        if Mx == 0:
          continue
        h = max(abs(x), mpf(1)) * mpf("1e-12")
        try:
          args = [p[0] for p in pairs]
          args[i] = x + h
          v2 = self.call(name, args)
          m = max(m, abs(v2 - v) / h * Mx)
        except (RefDomainError, ValueError, ZeroDivisionError):
          pass
      return v, m
    raise KeyError(op)

  def mag(self, node, r, at=None, on_joint=True):
    """Magnitude M(r) >= |value(r)|: sum of |terms| propagated through the tree."""
    r = F(r)
    at = r if at is None else F(at)
    k = node["k"]
    if k == "form":
      return self.form_mag(node["name"], node["p"], r)
    if k == "sum":
      return sum((self.mag(a, r, at) for a in node["a"]), mpf(0))
    if k == "product":
      v = mpf(1)
      for a in node["a"]:
        v *= self.mag(a, r, at)
      return v
    if k == "pow":
      n_ = const_whole_exponent(node, at)
      if n_ is not None and self.value(node["a"][0], r, at) <= 0:
        Ma = self.mag(node["a"][0], r, at)
        if n_ >= 0:
          return max(mpf(1), Ma) ** n_ if n_ else mpf(1)
        raise RefDomainError("negative whole power of a non-positive base: not judged")
      vals = [(self.value(a, r, at), self.mag(a, r, at)) for a in node["a"]]
      v, M = vals[0]
      for b, Mb in vals[1:]:
        if v == 0 and b > 0:
          M = mpf(0)          # exactly zero, nothing is rounded
          continue
        M = self._pow_mag(v, M, b, Mb)
        v = v ** b
      return M
    if k == "trans":
      x = F(node["x"])
      return self.mag(node["f"], r + x, at + x)
    if k == "ranges":
      parts = node["parts"]
      i = select_range([(m, s, None) for m, s, _ in parts], at)
      if i is None:
        return mpf(0)
      return self.mag(parts[i][2], r, at)
    if k == "custom":
      f = self.forms[node["name"]]
      pa = [F(a) for a in node["args"]]
      env = dict(zip(f["params"], [r] + pa))
      env_at = dict(zip(f["params"], [at] + pa))
      return self.expr_mag(f["expr"], env, env_at)[1]
    if k == "table":
      t = self.tables[node["name"]]
      return abs(self.table_value(node["name"], r, at)) + max(abs(float(y)) for y in t["y"])
    if k == "py":
      return self.expr_mag(node["expr"], {"r": r}, {"r": at})[1]
    if k == "buck4":
      node = self._buck4_as_spline(node)
      k = "spline"
    if k == "spline":
      rd, ra = F(node["rd"]), F(node["ra"])
      near = lambda a_, b_: abs(a_ - b_) <= mpf("3e-10") * max(mpf(1), abs(b_))   # includes the +-1e-10 side probes of the oracle
      if on_joint and (near(at, rd) or near(at, ra)):
        # (to rounding) ON detach / attach the value is the same from both sides, but which side's ARITHMETIC produced it
        # depends on the markers, on the construction and on how r was rounded: allow for the less accurate of the two
        return max(self.mag(node, r, at, on_joint=False), self._spline_interior_mag(node, r))
      if at <= rd:
        s0 = node.get("s0")
        if s0 and s0[0] != "-inf":
          marker, start = s0
          start = F(start)
          if not (at > start or (marker == ">=" and at == start)):
            return mpf(0)
        return self.mag(node["start"], r, at)
      if at >= ra:
        return self.mag(node["end"], r, at)
      return self._spline_interior_mag(node, r)
    raise KeyError(k)

  def _spline_interior_mag(self, node, r):
      co, cond = self.spline_info(node)
      # the double-precision solve carries a relative coefficient error ~ cond*u; express
      # it as a magnitude so that u*M bounds the value error
      amp = max(mpf(1), cond * mpf("1e-3"))
      if node["kind"] == "exp_spline":
        e = mp.exp(sum(co[i] * r ** i for i in range(6)))
        cmax = max(abs(c) for c in co[:6])
        if max(abs(co[i]) * abs(r) ** i for i in range(6)) > mpf("1e7"):
          # the polynomial inside exp() is a sum of terms > 1e7 that cancel: its double rounding error (> 1e-9) is
          # amplified exponentially, not linearly - no magnitude bound describes that (same rule as C10)
          raise RefDomainError("ill-conditioned exponential spline")
        return abs(co[6]) + e * max(mpf(1), amp * cmax * sum(abs(r) ** i for i in range(6)))
      cmax = max(abs(c) for c in co)
      return amp * cmax * sum(abs(r) ** i for i in range(6))

  def max_submag(self, node, r, at=None):
    """Largest magnitude of any sub-expression at r: double arithmetic overflows when an
    intermediate result does, even if the final value is moderate."""
    r = F(r)
    at = r if at is None else F(at)
    m = self.mag(node, r, at)
    k = node["k"]
    subs = []
    if k in ("sum", "product", "pow"):
      subs = [(a, r, at) for a in node["a"]]
    elif k == "trans":
      x = F(node["x"])
      subs = [(node["f"], r + x, at + x)]
    elif k == "ranges":
      i = select_range([(mm, s, None) for mm, s, _ in node["parts"]], at)
      if i is not None:
        subs = [(node["parts"][i][2], r, at)]
    for sub, rr, aa in subs:
      m = max(m, self.max_submag(sub, rr, aa))
    return m

  def min_subval(self, node, r, at=None):
    """Smallest non-zero |value| of the node or any of its sub-nodes at r: double arithmetic flushes an intermediate
    below ~1e-308 to zero, after which a huge co-factor can no longer bring the product back (the exact value may
    be moderate).  Such points are outside what doubles can evaluate, as with overflow."""
    r = F(r)
    at = r if at is None else F(at)
    try:
      v = abs(self.value(node, r, at))
    except (RefDomainError, ZeroDivisionError, ValueError, OverflowError):
      v = mpf(0)
    m = v if v != 0 else mpf("inf")
    k = node["k"]
    subs = []
    if k in ("sum", "product", "pow"):
      subs = [(a, r, at) for a in node["a"]]
    elif k == "trans":
      x = F(node["x"])
      subs = [(node["f"], r + x, at + x)]
    elif k == "ranges":
      i = select_range([(mm, s, None) for mm, s, _ in node["parts"]], at)
      if i is not None:
        subs = [(node["parts"][i][2], r, at)]
    elif k == "spline":
      subs = [(node["start"], r, at), (node["end"], r, at)]
    for sub, rr, aa in subs:
      m = min(m, self.min_subval(sub, rr, aa))
    return m

  def deriv(self, node, r, n=1):
    """n-th derivative at r of the branch selected at r (one-sided at breakpoints)."""
    r = F(r)
    if n == 0:
      return self.value(node, r)
    return mp.diff(lambda x: self.value(node, x, r), r, n)

  def fn(self, node, n=0):
    if n == 0:
      return lambda x: self.value(node, x)
    return lambda x: self.deriv(node, x, n)

  # ---- breakpoints (points where the node is not smooth)
  def breakpoints(self, node, shift=0.0):
    """Separations (in the caller's r) where value/derivatives may jump."""
    k = node["k"]
    out = []
    if k in ("sum", "product", "pow"):
      for a in node["a"]:
        out += self.breakpoints(a, shift)
    elif k == "trans":
      out += self.breakpoints(node["f"], shift + float(node["x"]))
    elif k == "ranges":
      for m, s, sub in node["parts"]:
        if float(s) != float("-inf"):
          out.append(float(s) - shift)
        out += self.breakpoints(sub, shift)
    elif k == "spline":
      out += [float(node["rd"]) - shift, float(node["ra"]) - shift]
      if node["kind"] == "buck4_spline":
        out.append(float(node["rmin"]) - shift)
      s0 = node.get("s0")
      if s0 and s0[0] != "-inf":
        out.append(float(s0[1]) - shift)
      out += self.breakpoints(node["start"], shift) + self.breakpoints(node["end"], shift)
    elif k == "buck4":
      out += [float(v) - shift for v in node["p"][3:6]]
    elif k == "table":
      t = self.tables[node["name"]]
      out += [float(v) - shift for v in t["x"]]
    elif k == "custom":
      out += [b - shift for b in self._expr_breaks(self.forms[node["name"]]["expr"], set())]
    elif k == "py":
      out += [b - shift for b in self._expr_breaks(node["expr"], set())]
    return out

  def exact_breakpoints(self, node):
    """Breakpoints whose comparison the library itself makes on the very double it was given: range starts,
    spline detach / r_min / attach and table ends that are NOT reached through trans() (r+X is rounded) and
    not inside a formula (exprtk parses its own literals).  At these, '>' versus '>=' can be checked exactly."""
    k = node["k"]
    out = []
    if k in ("sum", "product", "pow"):
      for a in node["a"]:
        out += self.exact_breakpoints(a)
    elif k == "ranges":
      for m, s, sub in node["parts"]:
        if float(s) != float("-inf"):
          out.append(float(s))
        out += self.exact_breakpoints(sub)
    elif k == "spline":
      out += [float(node["rd"]), float(node["ra"])]
      if node["kind"] == "buck4_spline":
        out.append(float(node["rmin"]))
      s0 = node.get("s0")
      if s0 and s0[0] != "-inf":
        out.append(float(s0[1]))
      out += self.exact_breakpoints(node["start"]) + self.exact_breakpoints(node["end"])
    elif k == "buck4":
      out += [float(v) for v in node["p"][3:6]]
    elif k == "table":
      t = self.tables[node["name"]]
      out += [float(t["x"][0]), float(t["x"][-1])]
    return out

  def _expr_breaks(self, e, seen):
    """Breakpoints of a formula in its first argument: if() thresholds, the data points of
    table forms it calls and the breakpoints of custom forms it calls (generated formulas pass
    r itself to such calls)."""
    out = []
    if not isinstance(e, list) or not e:
      return out
    if e[0] == "if":
      c = e[1]
      for side in (c[1], c[2]):
        if side[0] == "num":
          out.append(float(side[1]))
    if e[0] == "call":
      name = e[1]
      if name in self.tables:
        out += [float(v) for v in self.tables[name]["x"]]
      elif name in self.forms and name not in seen:
        out += self._expr_breaks(self.forms[name]["expr"], seen | {name})
    for x in e[1:]:
      if isinstance(x, list):
        if x and isinstance(x[0], list):
          for y in x:
            out += self._expr_breaks(y, seen)
        else:
          out += self._expr_breaks(x, seen)
    return out


# ------------------------------------------------------------------ tolerances

def token_quantum(tok):
  """Printed quantum of a numeric token ('%f' or '%e' style)."""
  t = tok.strip().lower()
  if t in ("nan", "inf", "-inf", "+inf"):
    return 0.0
  if "e" in t:
    mant, ex = t.split("e")
    digits = len(mant.split(".")[1]) if "." in mant else 0
    return 10.0 ** (int(ex) - digits)
  if "." in t:
    return 10.0 ** (-len(t.split(".")[1]))
  return 1.0


def scale(fn, r, extra=0):
  """Local magnitude of fn around r: absorbs double rounding and argument rounding."""
  s = mpf(extra)
  for x in (r, r * (1 + mpf("1e-3")) + mpf("1e-9"), r * (1 - mpf("1e-3")) - mpf("1e-9")):
    try:
      s = max(s, abs(fn(x)))
    except (RefDomainError, ZeroDivisionError, ValueError):
      pass
  return s


MAG_FACTOR = mpf("1e-13")   # ~1000 ulp of the tracked magnitude
UNDERFLOW = mpf("1e-200")    # doubles flush to zero / lose precision below ~1e-308


def close(obs, ref, q=0.0, sc=0, rel=1e-9, abs_=0.0, mag=0):
  """|obs-ref| <= q/2(1+2^-20) + rel*max(|ref|,sc) + 1e-13*mag + abs_"""
  obs = F(obs)
  ref = F(ref)
  tol = mpf(q) / 2 * (1 + mpf(2) ** -20) + mpf(rel) * max(abs(ref), F(sc)) + MAG_FACTOR * F(mag) + mpf(abs_) + UNDERFLOW
  return abs(obs - ref) <= tol, float(abs(obs - ref)), float(tol)
