"""Monitors attached from outside the repository: event traces on Potential.energy /
force and on arbitrary callables, recording file objects, failpoints, icontract
contracts with evaluation counters, audit hook, strace wrapper."""
import io
import os
import subprocess
import sys


class EventLog(object):
  """Single-threaded event log shared by the spies of one run."""

  def __init__(self):
    self.events = []

  def add(self, *ev):
    self.events.append(ev)

  def __len__(self):
    return len(self.events)


class PotentialTrace(object):
  """Patches Potential.energy/.force at class level and records (id(pot), kind, r).
  Use as a context manager."""

  def __init__(self, log=None):
    self.log = log if log is not None else EventLog()

  def __enter__(self):
    from atsim.potentials._potential import Potential
    self.cls = Potential
    self.orig_e = Potential.energy
    self.orig_f = Potential.force
    log = self.log
    oe, of = self.orig_e, self.orig_f

    def energy(pot, r):
      log.add(id(pot), "energy", r)
      return oe(pot, r)

    def force(pot, r):
      log.add(id(pot), "force", r)
      return of(pot, r)

    Potential.energy = energy
    Potential.force = force
    return self

  def __exit__(self, *a):
    self.cls.energy = self.orig_e
    self.cls.force = self.orig_f
    return False


class InjectedFault(Exception):
  pass


NO_POISON = object()
# values a user function can return without raising that no table format can hold: (3-r)**0.5 beyond r=3 is complex,
# a function that falls off its last branch returns None
POISON_VALUES = [complex(1.5, 2.0), None, "1.0"]


class Spy(object):
  """Transparent wrapper of a callable: forwards __call__, and .deriv/.deriv2 iff the
  wrapped object has them (hasattr must stay truthful: the library dispatches on it)."""

  def __init__(self, f, name, log, failpoint=None):
    self._f = f
    self._name = name
    self._log = log
    self._fp = failpoint
    if hasattr(f, "deriv"):
      self.deriv = self._deriv
    if hasattr(f, "deriv2"):
      self.deriv2 = self._deriv2

  def _hit(self, kind, r):
    self._log.add(self._name, kind, r)
    if self._fp is not None:
      return self._fp.tick()
    return NO_POISON

  def __call__(self, r):
    p = self._hit("call", r)
    return self._f(r) if p is NO_POISON else p

  def _deriv(self, r):
    p = self._hit("deriv", r)
    return self._f.deriv(r) if p is NO_POISON else p

  def _deriv2(self, r):
    p = self._hit("deriv2", r)
    return self._f.deriv2(r) if p is NO_POISON else p


FAULT_TYPES = [InjectedFault, ValueError, ZeroDivisionError, OverflowError, StopIteration, KeyError, AttributeError, TypeError,
               IndexError, RuntimeError, AssertionError, ArithmeticError, LookupError, FloatingPointError,
               # not Exception subclasses: a user pressing Ctrl-C during a long tabulation, a function that calls sys.exit()
               KeyboardInterrupt, GeneratorExit, SystemExit]


class Failpoint(object):
  """Raises on the k-th tick (1-based).  k=None never fires.  The exception type is one a failing
  user function can plausibly raise (a domain error, an exhausted iterator, ...)."""

  def __init__(self, k=None, exc_type=InjectedFault, poison=NO_POISON):
    self.k = k
    self.n = 0
    self.fired = False
    self.exc_type = exc_type
    self.poison = poison

  def tick(self):
    self.n += 1
    if self.k is not None and self.n == self.k:
      self.fired = True
      if self.poison is not NO_POISON:
        return self.poison   # the evaluation "succeeds" with a value that cannot be written
      raise self.exc_type("INJECTED-FAULT at evaluation %d" % self.n)
    return NO_POISON


class RecordingFile(object):
  """File-like object that logs every write(chunk) with the number of evaluation
  events that preceded it."""

  def __init__(self, log=None, binary=False):
    self.chunks = []
    self.log = log
    self.binary = binary

  def write(self, s):
    self.chunks.append((len(self.log) if self.log is not None else -1, s))
    return len(s)

  def flush(self):
    pass

  def getvalue(self):
    if self.binary:
      return b"".join(c for _, c in self.chunks)
    return "".join(c for _, c in self.chunks)

  @property
  def nbytes(self):
    return sum(len(c) for _, c in self.chunks)


# ------------------------------------------------------------------ contracts

class ContractViolation(Exception):
  pass


class Contracts(object):
  """Applies icontract post-conditions to repository functions by re-binding the
  attribute (no source edits).  Each contract counts its evaluations."""

  def __init__(self):
    self.counts = {}
    self.failures = []
    self._undo = []

  def ensure(self, owner, attr, cond, name):
    """cond(args tuple, kwargs dict, result) -> (ok, message)."""
    import icontract
    orig = getattr(owner, attr)
    counts = self.counts
    failures = self.failures
    counts.setdefault(name, 0)

    def _post(_ARGS, _KWARGS, result):
      counts[name] += 1
      try:
        ok, msg = cond(_ARGS, _KWARGS, result)
      except Exception as e:  # an oracle crash is recorded, never raised into the code under test
        failures.append((name, "ORACLE-ERROR %r" % (e,), None))
        return True
      if not ok:
        failures.append((name, msg, None))
      return True

    wrapped = icontract.ensure(_post, error=ContractViolation)(orig)
    setattr(owner, attr, wrapped)
    self._undo.append((owner, attr, orig))
    return wrapped

  def remove(self):
    for owner, attr, orig in reversed(self._undo):
      setattr(owner, attr, orig)
    self._undo = []


# ------------------------------------------------------------------ audit / strace

class OpenAudit(object):
  """Collects 'open' audit events.  Audit hooks cannot be removed, so one global hook
  is installed once and routed to the active collector."""
  _installed = False
  _active = None

  def __init__(self):
    self.events = []

  @classmethod
  def _hook(cls, event, args):
    a = cls._active
    if a is not None and event == "open":
      a.events.append((str(args[0]), args[1]))

  def __enter__(self):
    if not OpenAudit._installed:
      sys.addaudithook(OpenAudit._hook)
      OpenAudit._installed = True
    OpenAudit._active = self
    return self

  def __exit__(self, *a):
    OpenAudit._active = None
    return False


def strace_available():
  try:
    r = subprocess.run(["strace", "-V"], capture_output=True, timeout=10)
    if r.returncode != 0:
      return False
    r = subprocess.run(["strace", "-f", "-e", "trace=write", "true"], capture_output=True, timeout=20)
    return r.returncode == 0
  except Exception:
    return False


def strace_run(cmd, target_path, env=None, cwd=None, timeout=120):
  """Run cmd under strace; return (returncode, stdout, stderr, ordered syscalls touching
  target_path as [(name, detail)])."""
  import re
  import tempfile
  tf = tempfile.NamedTemporaryFile(prefix="strace-", suffix=".log", delete=False)
  tf.close()
  full = ["strace", "-f", "-y", "-s", "0", "-o", tf.name, "-e", "trace=openat,open,creat,write,pwrite64,writev,unlink,unlinkat,rename,renameat,renameat2,truncate,ftruncate"] + list(cmd)
  try:
    r = subprocess.run(full, env=env, cwd=cwd, capture_output=True, text=True, timeout=timeout)
    with open(tf.name, errors="replace") as f:
      lines = f.read().split("\n")
  finally:
    try:
      os.unlink(tf.name)
    except OSError:
      pass
  base = os.path.basename(target_path)
  calls = []
  for l in lines:
    if base not in l:
      continue
    m = re.match(r"^\d+\s+(\w+)\((.*)$", l)
    if not m:
      continue
    name, rest = m.group(1), m.group(2)
    ret = rest.rsplit("=", 1)[-1].strip() if "=" in rest else ""
    calls.append((name, rest[:200], ret))
  return r.returncode, r.stdout, r.stderr, calls
