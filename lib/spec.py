"""Model-spec language and seeded generators (DESIGN.md section 3.1).

Node kinds (functions of r), all JSON:
  {"k":"form","name":NAME,"p":[...]}                built-in form (as.NAME / potentialforms.NAME)
  {"k":"sum"|"product"|"pow","a":[node,...]}        modifiers / plus, product, pow
  {"k":"trans","f":node,"x":X}                      f(r+X)                        (potable only)
  {"k":"ranges","parts":[[marker,start,node],...]}  multi-range
  {"k":"spline","kind":"exp_spline"|"buck4_spline","s0":[marker,start]|["-inf"],
       "start":node,"md":marker,"rd":x,"rmin":x,"ma":marker,"ra":x,"end":node}
  {"k":"buck4","p":[A,rho,C,rd,rm,ra]}
  {"k":"custom","name":label,"args":[...]}          refers to model["forms"]      (potable only)
  {"k":"table","name":label}                        refers to model["tables"]
  {"k":"py","expr":AST,"d1":AST|None,"d2":AST|None} arbitrary Python callable     (API only)

Formula AST: ["num",v] ["var",n] ["neg",a] ["+",a,b] ["-",a,b] ["*",a,b] ["/",a,b]
["^",a,b] ["call",fname,[args]] ["if",[cmp,a,b],x,y].
"""
import copy
import math
import random

ELEMENTS = ["Al", "Cu", "Ni", "Fe", "Ag", "Au", "U", "O", "Gd", "Si", "Mg", "Zr", "H", "He", "Xe", "Ti"]
MARKERS = [">", ">="]


def fnum(x):
  """Text of a number that round-trips exactly."""
  if isinstance(x, bool):
    raise TypeError
  if isinstance(x, int):
    return str(x)
  if isinstance(x, str):
    return x
  if x == int(x) and abs(x) < 1e15 and random.Random(hash(x)).random() < 0.0:
    return str(int(x))
  return repr(float(x))


# ------------------------------------------------------------------ helpers

def rfloat(rng, lo, hi, nd=None):
  v = rng.uniform(lo, hi)
  if nd is None:
    nd = rng.choice([1, 2, 3, 4, 6])
  v = round(v, nd)
  if v == 0.0 and (lo > 0 or hi < 0):
    v = lo if lo > 0 else hi
  return v


def rsign(rng, p_neg=0.3):
  return -1.0 if rng.random() < p_neg else 1.0


def label(rng, used=(), real=0.6, maxlen=6):
  for _ in range(100):
    if rng.random() < real:
      l = rng.choice(ELEMENTS)
    else:
      n = rng.randint(1, maxlen)
      l = rng.choice("ABCDEFGHJKLMNPQRSTUVWXYZ") + "".join(rng.choice("abcdefghijkmnpqrstuvwxyz0123456789_+") for _ in range(n - 1))
    if l not in used:
      return l
  raise RuntimeError("label")


def species_list(rng, n, real=0.6, maxlen=6, lookalike=False):
  if lookalike and rng.random() < 0.07:
    # species labelled by number (type ids): '9' and '10', '2' and '10', '1' and '100' - text order is not numeric order
    return rng.sample(["1", "2", "3", "9", "10", "11", "12", "20", "100"], n)
  out = []
  for _ in range(n):
    out.append(label(rng, out, real, maxlen))
  if lookalike and n >= 2 and rng.random() < 0.25:
    # look-alike labels: one label is a prefix of another (Ce / Ce+, O / O2, Fe / Fe_s) or they differ only in case;
    # the extra characters sort before and after '-' and '>' so that orderings of 'A-B' strings and of species differ
    i, j = rng.sample(range(n), 2)
    base = out[i]
    for _ in range(20):
      cand = base + rng.choice(["+", "2", "_", "x", "+2", "0"]) if rng.random() < 0.8 else (base.lower() if base.lower() != base else base.upper())
      if len(cand) <= maxlen and cand not in out:
        out[j] = cand
        break
  return out


# ------------------------------------------------------------------ forms

def gen_form(rng, reg0=False, positive=False, smooth=False, names=None, rmax=20.0, strict0=False):
  """Random built-in form with in-domain parameters.
  reg0: finite at r = 0 (value only).  positive: strictly positive, moderate, for r in [0, 30]."""
  if positive:
    c = rng.choice(["constant", "bornmayer", "polynomial", "exp_spline"])
    if c == "constant":
      return {"k": "form", "name": "constant", "p": [rfloat(rng, 0.5, 3.0)]}
    if c == "bornmayer":
      return {"k": "form", "name": "bornmayer", "p": [rfloat(rng, 0.5, 5.0), rfloat(rng, 2.0, 8.0)]}
    if c == "polynomial":
      return {"k": "form", "name": "polynomial", "p": [rfloat(rng, 0.5, 2.0), rfloat(rng, 0.0, 0.05), rfloat(rng, 0.0, 0.002)]}
    return {"k": "form", "name": "exp_spline", "p": [rfloat(rng, -1, 1), rfloat(rng, -0.05, 0.05), 0.0, 0.0, 0.0, 0.0, rfloat(rng, 0.1, 1.0)]}
  pool = names or ["buck", "bornmayer", "coul", "constant", "exponential", "hbnd", "lj", "morse", "polynomial",
                   "sqrt", "tang_toennies", "zbl", "zero", "exp_spline"]
  if reg0:
    # buck (even with C = 0) evaluates C/r**6 and raises at exactly r = 0, outside C06's r > 0 domain
    pool = [n for n in pool if n in ("bornmayer", "constant", "exponential", "morse", "polynomial", "sqrt", "zero", "exp_spline")]
  name = rng.choice(pool)
  p = gen_form_params(rng, name, reg0, rmax=rmax)
  if rng.random() < 0.08 and name in INT_OK:
    # whole-number parameters given as Python ints (spelled '3', not '3.0', in a file): same numbers, another type
    for i in (INT_OK[name] if INT_OK[name] is not None else range(len(p))):
      if abs(p[i]) >= 1:
        p[i] = int(round(p[i]))
  return {"k": "form", "name": name, "p": p}


# parameter positions that may be rounded to whole numbers without leaving the form's domain (None: all)
INT_OK = {"buck": [0, 2], "bornmayer": [0], "coul": [0, 1], "constant": None, "polynomial": None, "hbnd": [0, 1], "lj": [0], "morse": [2],
          "sqrt": [0], "exponential": [0], "tang_toennies": [0, 2, 3, 4]}


def gen_form_params(rng, name, reg0=False, distinct=False, rmax=20.0):
  s = lambda p=0.25: rsign(rng, p)
  if name == "buck":
    C = 0.0 if reg0 else rng.choice([0.0, rfloat(rng, 0.5, 120.0), -rfloat(rng, 0.5, 50.0), rfloat(rng, 0.5, 120.0)])
    return [s() * rfloat(rng, 1.0, 5000.0), s(0.1) * rfloat(rng, 0.1, 1.2), C]
  if name == "bornmayer":
    return [s() * rfloat(rng, 1.0, 5000.0), s(0.1) * rfloat(rng, 0.1, 1.2)]
  if name == "coul":
    return [s(0.5) * rfloat(rng, 0.1, 4.0), s(0.5) * rfloat(rng, 0.1, 4.0)]
  if name == "constant":
    return [rng.choice([0.0, s(0.4) * rfloat(rng, 0.01, 50.0), s(0.4) * rfloat(rng, 0.01, 50.0)])]
  if name == "exponential":
    if reg0:
      n = rng.choice([0, 1, 2, 3, 0.5, 1.5, 2.0, rfloat(rng, 0.1, 4.0)])
    else:
      n = rng.choice([rng.randint(-12, 12), rng.randint(-12, 12), rfloat(rng, -6.0, 6.0), 0.5, -0.5])
    return [s() * rfloat(rng, 0.01, 100.0), n]
  if name == "hbnd":
    return [s() * rfloat(rng, 1.0, 5000.0), s() * rfloat(rng, 1.0, 500.0)]
  if name == "lj":
    return [s(0.15) * rfloat(rng, 0.001, 2.0), rfloat(rng, 0.5, 4.0)]
  if name == "morse":
    return [rfloat(rng, 0.3, 3.0), rfloat(rng, 0.5, 4.0), s(0.15) * rfloat(rng, 0.05, 6.0)]
  if name == "polynomial":
    n = rng.choice([1, 2, 3, 4, 5, 6, 7, 8, 9])
    cs = []
    for i in range(n):
      c = rng.choice([0.0, s(0.5) * rfloat(rng, 0.001, 5.0) / (3.0 ** i), s(0.5) * rfloat(rng, 0.001, 5.0) / (3.0 ** i), float(rng.randint(-3, 3))])
      cs.append(round(c, 8))
    return cs
  if name == "sqrt":
    return [s(0.5) * rfloat(rng, 0.01, 20.0)]
  if name == "tang_toennies":
    return [rfloat(rng, 1.0, 100.0), rfloat(rng, 0.8, 2.5), rfloat(rng, 1.0, 200.0), rfloat(rng, 1.0, 2000.0), rfloat(rng, 1.0, 20000.0)]
  if name == "zbl":
    # zbl.deriv overflows when r*(z1^.23+z2^.23) exceeds ~73 (recorded under C07); stay inside
    zmax = max(1, min(92, int((35.0 / max(rmax, 1.0)) ** (1 / 0.23))))
    z1, z2 = rng.randint(1, zmax), rng.randint(1, zmax)
    return [rng.choice([float(z1), z1]), rng.choice([float(z2), z2])]
  if name == "zero":
    return []
  if name == "exp_spline":
    return [rfloat(rng, -2, 2), rfloat(rng, -1, 1), rfloat(rng, -0.1, 0.1), rfloat(rng, -0.01, 0.01),
            rfloat(rng, -0.0005, 0.0005, 6), -abs(rfloat(rng, 0.0, 0.00002, 7)), s(0.5) * rfloat(rng, 0.0, 5.0)]
  raise KeyError(name)


# ------------------------------------------------------------------ formulas

def N(v):
  return ["num", v]


def V(n):
  return ["var", n]


def gen_formula(rng, params, reg0=False, forms=None, depth=2, tables=None):
  """Formula AST over variable 'r' (first of params) and the other params.
  Templates are combined with + - * so that values stay finite for r in (0, 30]
  (and at r = 0 when reg0)."""
  r = V(params[0])
  ps = [V(p) for p in params[1:]] or [N(1.0)]

  def P():
    return rng.choice(ps)

  def atom():
    c = rng.random()
    if c < 0.18:
      return ["*", P(), ["call", "exp", [["neg", ["/", r, ["+", ["call", "abs", [P()]], N(0.5)]]]]]]
    if c < 0.30:
      return ["*", P(), ["^", ["+", r, N(rfloat(rng, 0.5, 2.0))], N(float(rng.choice([-1, -2, -3, -6, 2, 0.5])))]]
    if c < 0.36:
      fn = rng.choice(["pymath.exp", "pymath.sin", "pymath.cos", "pymath.tanh", "pymath.atan", "pymath.sinh", "pymath.cosh", "pymath.asinh",
                       "pymath.log1p", "pymath.fabs", "pymath.degrees", "pymath.radians"])
      arg = ["*", N(rfloat(rng, -0.2, 0.2)), r]
      if fn == "pymath.log1p":
        arg = ["*", arg, arg]
      return ["*", P(), ["call", fn, [arg]]]
    if c < 0.40:
      # two-argument and variadic pymath functions
      k = N(rfloat(rng, 0.5, 3.0))
      fn = rng.choice(["pymath.hypot", "pymath.atan2", "pymath.pow", "pymath.fsum", "pymath.log", "pymath.log10", "pymath.log2", "pymath.copysign"])
      if fn == "pymath.pow":
        return ["*", P(), ["call", fn, [["+", r, k], N(float(rng.choice([2, -1, 0.5, 3])))]]]
      if fn == "pymath.fsum":
        return ["call", fn, [["*", P(), r], k, ["*", N(rfloat(rng, -1, 1)), ["*", r, r]], N(rfloat(rng, -2, 2))]]
      if fn == "pymath.log":
        return ["*", P(), ["call", fn, [["+", ["*", r, r], k], N(float(rng.choice([2.0, 10.0, 3.5])))]]]
      if fn in ("pymath.log10", "pymath.log2"):
        return ["*", P(), ["call", fn, [["+", ["*", r, r], k]]]]
      if fn == "pymath.copysign":
        return ["call", fn, [["+", r, k], N(rng.choice([-1.0, 1.0, -2.5]))]]
      return ["*", P(), ["call", fn, [r, k] if rng.random() < 0.5 else [k, ["+", r, N(0.25)]]]]
    if c < 0.50:
      fn = rng.choice(["sin", "cos", "tanh", "erfc", "exp"])
      arg = ["*", N(rfloat(rng, -0.2, 0.2)), ["-", r, N(rfloat(rng, 0.0, 3.0))]]
      return ["*", P(), ["call", fn, [arg]]]
    if c < 0.60:
      return ["*", P(), ["call", "pymath.log", [["+", ["*", r, r], N(rfloat(rng, 0.5, 3.0))]]]]
    if c < 0.70:
      name = rng.choice(["as.bornmayer", "as.morse", "as.polynomial", "as.constant"] if reg0 else
                        ["as.bornmayer", "as.morse", "as.polynomial", "as.buck", "as.lj", "as.coul", "as.hbnd", "as.zbl", "as.sqrt", "as.exponential"])
      fp = gen_form_params(rng, name[3:], reg0=True if name == "as.buck" and reg0 else reg0)
      args = [r] + [N(v) for v in fp]
      # bind some literals to parameters of the enclosing form
      if len(args) > 1 and rng.random() < 0.5 and name not in ("as.zbl", "as.exponential", "as.morse", "as.lj", "as.bornmayer", "as.buck"):
        args[rng.randrange(1, len(args))] = P()
      return ["call", name, args]
    if c < 0.80 and forms:
      f = rng.choice(forms)
      args = [r] + [rng.choice([P(), N(rfloat(rng, 0.2, 3.0))]) for _ in f["params"][1:]]
      return ["call", f["name"], args]
    if c < 0.86 and tables:
      t = rng.choice(tables)
      return ["*", P(), ["call", t["name"], [r]]]
    if c < 0.93:
      k = rfloat(rng, 0.3, 6.0, 3)
      return ["if", [rng.choice(["<", ">", "<=", ">="]), r, N(k)], ["*", P(), r], ["+", P(), N(rfloat(rng, -1, 1))]]
    return ["*", P(), ["+", ["*", r, r], N(1.0)]]

  e = atom()
  for _ in range(rng.randint(0, depth + 1)):
    op = rng.choice(["+", "+", "-", "*"])
    e = [op, e, atom()]
  if rng.random() < 0.15:
    e = ["/", e, ["+", ["*", r, r], N(rfloat(rng, 0.5, 2.0))]]
  return e


def formula_breaks(e, out=None):
  """Constants k used in if(r cmp k) conditions (breakpoints in r)."""
  if out is None:
    out = []
  if isinstance(e, list):
    if e and e[0] == "if":
      c = e[1]
      if c[2][0] == "num":
        out.append(float(c[2][1]))
    for x in e[1:]:
      if isinstance(x, list):
        formula_breaks(x, out)
  return out


def formula_calls(e, out=None):
  if out is None:
    out = set()
  if isinstance(e, list):
    if e and e[0] == "call":
      out.add(e[1])
      for a in e[2]:
        formula_calls(a, out)
    else:
      for x in e[1:]:
        if isinstance(x, list):
          formula_calls(x, out)
  return out


RESERVED = {"r", "rij", "x1", "e", "pi", "inf", "if", "and", "or", "not", "exp", "log", "sin", "cos", "tan", "abs", "min", "max",
            "sum", "mul", "avg", "pow", "sqrt", "erf", "erfc", "floor", "ceil", "round", "true", "false", "var",
            "for", "while", "repeat", "until", "switch", "case", "default", "return", "break", "continue", "null",
            "in", "like", "ilike", "mod", "nand", "nor", "xor", "xnor", "shl", "shr", "swap", "const", "epsilon",
            "trunc", "frac", "sgn", "root", "logn", "log2", "log10", "log1p", "expm1", "clamp", "iclamp", "inrange",
            "hypot", "atan2", "acos", "asin", "atan", "cosh", "sinh", "tanh", "acosh", "asinh", "atanh", "cot", "csc",
            "sec", "deg2rad", "deg2grad", "rad2deg", "grad2deg", "ncdf", "roundn", "equal", "not_equal", "else",
            "elseif", "mand", "mor", "sinc", "x", "y", "xy"}


def ident(rng, used, n=(1, 6)):
  for _ in range(200):
    k = rng.randint(*n)
    s = rng.choice("abcdfghjkmnpqstuvwz") + "".join(rng.choice("abcdefghijklmnopqrstuvwxyz0123456789_") for _ in range(k - 1))
    # exprtk symbols are case-insensitive: identifiers must differ by more than case
    if s.lower() not in RESERVED and s.lower() not in set(u.lower() for u in used) and not s.lower().startswith("as") and not s.lower().startswith("pymath"):
      return s
  raise RuntimeError("ident")


def gen_custom_forms(rng, n, reg0=False, tables=None):
  forms = []
  used = set(t["name"] for t in (tables or []))
  for i in range(n):
    name = ident(rng, used, (2, 7))
    used.add(name)
    rname = rng.choice(["r", "r", "rij", "x1"])
    pnames = []
    for _ in range(rng.randint(0, 3)):
      pn = ident(rng, set(pnames) | used | {rname}, (1, 4))
      if rng.random() < 0.5:
        pn = pn.upper()
      if pn.lower() in RESERVED or pn.lower() in set(x.lower() for x in pnames) or pn.lower() == rname.lower():
        continue
      pnames.append(pn)
      used.add(pn)   # a later form or table must not take the name of a parameter (exprtk: variable/function clash)
    params = [rname] + pnames
    expr = gen_formula(rng, params, reg0=reg0, forms=list(forms), tables=tables)
    if rng.random() < 0.3:
      expr = recase_vars(expr, rng)
    forms.append({"name": name, "params": params, "expr": expr, "breaks": formula_breaks(expr)})
  return forms


def recase_vars(e, rng):
  """The formula spells (some occurrences of) its variables in another case than the signature does: exprtk symbols are
  case-insensitive, so 'a*exp(-R/RHO)' is the same formula as 'A*exp(-r/rho)'."""
  if not isinstance(e, list):
    return e
  if e and e[0] == "var":
    n = e[1]
    alt = rng.choice([n.upper(), n.lower(), n.swapcase(), n])
    return ["var", alt]
  return [e[0]] + [recase_vars(x, rng) if isinstance(x, list) else x for x in e[1:]]


def gen_table(rng, name, npts=None, lo=0.0, hi=None):
  n = npts or rng.choice([4, 5, 6, 8, 12, 20, 40])
  hi = hi if hi is not None else rfloat(rng, 3.0, 25.0, 2)
  xs = sorted(set(round(lo + (hi - lo) * (i + rng.uniform(-0.3, 0.3)) / (n - 1), 5) for i in range(1, n - 1)))
  xs = [lo] + [x for x in xs if lo < x < hi] + [hi]
  while len(xs) < 4:
    xs = sorted(set(xs + [round(rng.uniform(lo, hi), 5)]))
  sc = rng.choice([1.0, 10.0, 0.01, 1000.0])
  a, b = rng.uniform(-2, 2), rng.uniform(0.1, 1.0)
  ys = [round(sc * (a * math.exp(-b * x) + 0.2 * math.sin(x) + rng.uniform(-0.05, 0.05)), 8) for x in xs]
  return {"name": name, "x": xs, "y": ys, "as": rng.choice(["xy", "x/y"])}


# ------------------------------------------------------------------ nodes

def gen_node(rng, depth=2, route="potable", reg0=False, positive=False, smooth=False, forms=None, tables=None,
             kinds=None, rmax=20.0, no_ranges=False):
  """Random potential definition tree."""
  forms = forms or []
  tables = tables or []
  if positive:
    c = rng.random()
    if depth > 0 and c < 0.25:
      return {"k": "sum", "a": [gen_node(rng, depth - 1, route, reg0, True, smooth) for _ in range(2)]}
    if depth > 0 and c < 0.4:
      return {"k": "product", "a": [gen_node(rng, depth - 1, route, reg0, True, smooth) for _ in range(2)]}
    if depth > 0 and c < 0.5:
      return {"k": "pow", "a": [gen_node(rng, depth - 1, route, reg0, True, smooth), {"k": "form", "name": "constant", "p": [rfloat(rng, -1.0, 1.5)]}]}
    return gen_form(rng, positive=True, strict0=(reg0 and route == "api"))
  weights = {"form": 5.0}
  if depth > 0:
    weights.update({"sum": 1.6, "product": 1.2, "pow": 0.7, "ranges": 1.0, "spline": 0.8, "buck4": 0.3})
    if route == "potable":
      weights["trans"] = 0.6
  else:
    weights.update({"buck4": 0.3})
  if route == "potable" and forms:
    weights["custom"] = 2.0
  if tables:
    weights["table"] = 0.8
  if route == "api":
    weights["py"] = 1.5
  if reg0:
    weights.pop("buck4", None)
  if no_ranges:
    # the potable grammar has no nested range lists: a range's body is a form or a modifier
    weights.pop("ranges", None)
  if kinds is not None:
    weights = {k: w for k, w in weights.items() if k in kinds}
    if not weights:
      weights = {"form": 1.0}
  ks = sorted(weights)
  k = rng.choices(ks, [weights[x] for x in ks])[0]
  sub = lambda **kw: gen_node(rng, depth - 1, route, kw.get("reg0", reg0), kw.get("positive", False), smooth, forms, tables, kinds, rmax)
  if k == "form":
    return gen_form(rng, reg0=reg0, smooth=smooth, rmax=rmax + 2.5, strict0=(reg0 and route == "api"))
  if k in ("sum", "product"):
    return {"k": k, "a": [sub() for _ in range(rng.choice([1, 2, 2, 3, 4]))]}
  if k == "pow":
    cst = lambda lo, hi: {"k": "form", "name": "constant", "p": [rfloat(rng, lo, hi)]}
    expo = rng.choice([{"k": "form", "name": "constant", "p": [rng.choice([2.0, 0.5, -1.0, 3.0, rfloat(rng, -2.0, 2.5), 1, 2, 0, 3, -1, 1.0, 1])]},
                       {"k": "form", "name": "polynomial", "p": [rfloat(rng, -1, 1), rfloat(rng, -0.05, 0.05)]},
                       # the exponent may itself be any definition: nested pow / sum / product (kept small)
                       {"k": "pow", "a": [rng.choice([cst(0.5, 3.0), {"k": "form", "name": "polynomial", "p": [rfloat(rng, 0.5, 2.0), rfloat(rng, 0.0, 0.04)]}]), cst(-1.0, 1.5)]},
                       {"k": "sum", "a": [cst(-1.0, 1.0), cst(-0.5, 1.0)]},
                       {"k": "product", "a": [cst(-1.5, 1.5), {"k": "form", "name": "polynomial", "p": [rfloat(rng, 0.2, 1.0), rfloat(rng, -0.01, 0.01)]}]}])
    return {"k": "pow", "a": [gen_node(rng, max(0, depth - 1), route, reg0, True, smooth), expo]}
  if k == "trans":
    x = rfloat(rng, 0.1, 2.0)  # positive shift keeps r+X inside the domain
    if reg0 and rng.random() < 0.3:
      x = -x                   # regular-at-0 bodies may also be shifted the other way (f is 0 for r+X <= 0 in potable)
    return {"k": "trans", "f": gen_node(rng, depth - 1, route, reg0, False, smooth, forms, tables, kinds, rmax + 2.0), "x": x}
  if k == "ranges":
    n = rng.choice([1, 2, 2, 3, 4])
    if rng.random() < 0.35:
      # starts from a small lattice, so that ranges at different nesting levels share a start (with either marker)
      lattice = [0.0, 0.5, 1.0, 1.5, 2.0, 3.0]
      starts = sorted(set(rng.choice(lattice) for _ in range(n)))
    else:
      starts = sorted(set([rng.choice([0.0, 0.0, round(rng.uniform(0.1, 1.0), 2)])] + [round(rng.uniform(0.5, rmax * 0.8), rng.choice([1, 2, 3])) for _ in range(n - 1)]))
    parts = [[rng.choice(MARKERS), s, gen_node(rng, depth - 1, route, reg0, False, smooth, forms, tables, kinds, rmax, no_ranges=(route == "potable"))] for s in starts]
    rng.shuffle(parts) if rng.random() < 0.2 else None
    return {"k": "ranges", "parts": parts}
  if k == "spline":
    return gen_spline(rng, route, reg0, forms, tables)
  if k == "buck4":
    rd = rfloat(rng, 0.8, 1.6, 2)
    rm = round(rd + rfloat(rng, 0.3, 0.8, 2), 3)
    ra = round(rm + rfloat(rng, 0.3, 0.9, 2), 3)
    return {"k": "buck4", "p": [rfloat(rng, 200.0, 5000.0), rfloat(rng, 0.15, 0.45), rfloat(rng, 1.0, 80.0), rd, rm, ra]}
  if k == "custom":
    f = rng.choice(forms)
    return {"k": "custom", "name": f["name"], "args": [rfloat(rng, 0.2, 4.0) * rsign(rng, 0.2) for _ in f["params"][1:]]}
  if k == "table":
    return {"k": "table", "name": rng.choice(tables)["name"]}
  if k == "py":
    return gen_py(rng)
  raise KeyError(k)


SMOOTH_START = ["buck", "bornmayer", "morse", "polynomial", "zbl", "lj", "coul", "hbnd"]


def gen_spline(rng, route="potable", reg0=False, forms=None, tables=None, kind=None):
  kind = kind or rng.choice(["exp_spline", "exp_spline", "buck4_spline"])
  rd = rfloat(rng, 0.6, 2.0, 2)
  if kind == "exp_spline":
    ra = round(rd + rfloat(rng, 0.4, 1.6, 2), 3)
    rmin = None
  else:
    rmin = round(rd + rfloat(rng, 0.3, 0.9, 2), 3)
    ra = round(rmin + rfloat(rng, 0.3, 1.0, 2), 3)
  sname = rng.choice(["bornmayer", "morse", "polynomial"] if reg0 else SMOOTH_START)
  ename = rng.choice(["buck", "bornmayer", "morse", "polynomial", "lj", "hbnd", "coul", "constant"])
  start = {"k": "form", "name": sname, "p": gen_form_params(rng, sname, reg0)}
  end = {"k": "form", "name": ename, "p": gen_form_params(rng, ename)}
  if start["name"] in ("buck", "bornmayer"):
    start["p"][1] = abs(start["p"][1]) + 0.1
  if end["name"] in ("buck", "bornmayer"):
    end["p"][1] = abs(end["p"][1]) + 0.1
  # the end potentials may be modifiers as well as plain forms (any definition without its own ranges)
  if rng.random() < 0.3:
    extra = {"k": "form", "name": "morse", "p": gen_form_params(rng, "morse")}
    start = {"k": rng.choice(["sum", "product"]), "a": [start, extra] if rng.random() < 0.5 else [extra, start]}
  if rng.random() < 0.3:
    extra = {"k": "form", "name": rng.choice(["polynomial", "constant"]), "p": [rfloat(rng, 0.5, 2.0)]}
    end = {"k": rng.choice(["sum", "product"]), "a": [end, extra]}
  if route != "api" and rng.random() < 0.2:
    # trans() of a definition as an end potential (its shifted deriv / deriv2 feed the spline coefficients)
    if rng.random() < 0.5:
      end = {"k": "trans", "f": end, "x": rfloat(rng, 0.1, 1.5)}
    else:
      start = {"k": "trans", "f": start, "x": rfloat(rng, 0.1, 1.0)}
  if route == "api":
    s0 = ["-inf"]
  else:
    s0 = [rng.choice(MARKERS), rng.choice([0.0, 0.0, round(rng.uniform(0.0, rd * 0.8), 2)])]
  n = {"k": "spline", "kind": kind, "s0": s0, "start": start, "md": rng.choice(MARKERS), "rd": rd,
       "ma": rng.choice(MARKERS), "ra": ra, "end": end}
  if rmin is not None:
    n["rmin"] = rmin
  return n


def gen_py(rng, force=None):
  """Python callable with optional analytic derivative ASTs (correct by construction)."""
  r = V("r")
  t = rng.choice(["exp", "poly", "rat", "gauss"])
  a, b, c = rfloat(rng, 0.5, 50.0) * rsign(rng), rfloat(rng, 0.2, 2.0), rfloat(rng, -2.0, 2.0)
  A, B, C = N(a), N(b), N(c)
  if t == "exp":
    E = ["call", "exp", [["neg", ["*", B, r]]]]
    e = ["+", ["*", A, E], C]
    d1 = ["neg", ["*", ["*", A, B], E]]
    d2 = ["*", ["*", A, ["*", B, B]], E]
  elif t == "poly":
    e = ["+", ["+", ["*", A, ["*", r, r]], ["*", B, r]], C]
    d1 = ["+", ["*", ["*", N(2.0), A], r], B]
    d2 = ["*", N(2.0), A]
  elif t == "rat":
    den = ["+", r, B]
    e = ["/", A, den]
    d1 = ["neg", ["/", A, ["*", den, den]]]
    d2 = ["/", ["*", N(2.0), A], ["*", den, ["*", den, den]]]
  else:
    u = ["-", r, B]
    G = ["call", "exp", [["neg", ["*", u, u]]]]
    e = ["*", A, G]
    d1 = ["*", ["*", ["*", N(-2.0), A], u], G]
    d2 = ["*", ["*", A, ["-", ["*", N(4.0), ["*", u, u]], N(2.0)]], G]
  mode = force if force is not None else rng.choice([0, 1, 2, 2])
  return {"k": "py", "expr": e, "d1": d1 if mode >= 1 else None, "d2": d2 if mode >= 2 else None}


# ------------------------------------------------------------------ potable view

def wrap_potable(node, top=True):
  """The function a potable file denotes for `node`: every definition position that
  has no explicit range marker acts for r > 0 only (default range start '>' 0)."""
  k = node["k"]
  n = dict(node)
  if k in ("sum", "product", "pow"):
    n["a"] = [wrap_potable(a) for a in node["a"]]
  elif k == "trans":
    n["f"] = wrap_potable(node["f"])
  elif k == "ranges":
    n["parts"] = [[m, s, wrap_potable(sub, top=False)] for m, s, sub in node["parts"]]
    return n
  elif k == "spline":
    n["start"] = wrap_potable(node["start"], top=False)
    n["end"] = wrap_potable(node["end"], top=False)
    if n.get("s0", ["-inf"])[0] == "-inf":
      n["s0"] = [">", 0.0]
  if top:
    return {"k": "ranges", "parts": [[">", 0.0, n]]}
  return n


def has_deriv(node, order=1):
  """Documented rule: a combination offers .deriv iff some component offers it."""
  k = node["k"]
  if k in ("form", "buck4", "table"):
    return True
  if k == "custom":
    return False
  if k == "py":
    return node.get("d1" if order == 1 else "d2") is not None and (order == 1 or node.get("d1") is not None)
  if k in ("sum", "product", "pow"):
    return any(has_deriv(a, order) for a in node["a"])
  if k == "trans":
    return has_deriv(node["f"], order)
  if k == "ranges":
    return any(has_deriv(s, order) for _, _, s in node["parts"])
  if k == "spline":
    return True
  return False


def all_analytic(node):
  """True when every leaf offers analytic first and second derivatives."""
  k = node["k"]
  if k in ("form", "buck4", "table"):
    return True
  if k == "custom":
    return False
  if k == "py":
    return node.get("d1") is not None and node.get("d2") is not None
  if k in ("sum", "product", "pow"):
    return all(all_analytic(a) for a in node["a"])
  if k == "trans":
    return all_analytic(node["f"])
  if k == "ranges":
    return all(all_analytic(s) for _, _, s in node["parts"])
  if k == "spline":
    return all_analytic(node["start"]) and all_analytic(node["end"])
  return False


def node_kinds(node, out=None):
  if out is None:
    out = set()
  k = node["k"]
  out.add(k if k != "form" else "form:" + node["name"])
  if k in ("sum", "product", "pow"):
    for a in node["a"]:
      node_kinds(a, out)
  elif k == "trans":
    node_kinds(node["f"], out)
  elif k == "ranges":
    for _, _, s in node["parts"]:
      node_kinds(s, out)
  elif k == "spline":
    out.add("spline:" + node["kind"])
    node_kinds(node["start"], out)
    node_kinds(node["end"], out)
  return out


def cutoff_choice(rng):
  return rng.choice([rfloat(rng, 0.5, 20.0, 1), rfloat(rng, 0.5, 20.0, 2), rfloat(rng, 0.5, 20.0, 3), 10.0, 6.5, 12.0,
                     rng.uniform(0.5, 20.0), rng.randint(1, 20) / 8.0 + 1.0 / 3.0])


# ------------------------------------------------------------------ models

def gen_pair_model(rng, route="potable", npots=None, reg0=False, depth=2, target="LAMMPS", maxlabel=6,
                   nr_choices=None, with_forms=True, rmax_scale=lambda nr: 1.0):
  """Pair model: species pairs (unique unordered), forms, tables, grid."""
  npots = npots or rng.choice([1, 1, 2, 2, 3, 4, 6])
  nsp = rng.choice([1, 2, 3, 4])
  sp = species_list(rng, nsp, maxlen=maxlabel, lookalike=True)
  if route == "api" and rng.random() < 0.25:
    # through the Python API a label is any string without white space: charges, dots, even hyphens
    sp = [x + rng.choice(["2-", "+3", ".1", "-", "_core", "4+"])[:max(0, maxlabel - len(x))] for x in sp]
    sp = list(dict.fromkeys(sp))
  pairs = []
  for i in range(len(sp)):
    for j in range(i, len(sp)):
      pairs.append((sp[i], sp[j]) if rng.random() < 0.5 else (sp[j], sp[i]))
  rng.shuffle(pairs)
  pairs = pairs[:npots]
  tables = []
  forms = []
  if with_forms and rng.random() < 0.5:
    tables = [gen_table(rng, ident(rng, set(), (3, 6)), lo=0.0 if reg0 or rng.random() < 0.5 else rfloat(rng, 0.1, 0.9, 2))
              for _ in range(rng.choice([1, 1, 2]))]
    names = set()
    tables = [t for t in tables if not (t["name"] in names or names.add(t["name"]))]
  if route == "potable" and with_forms and rng.random() < 0.7:
    forms = gen_custom_forms(rng, rng.choice([1, 2, 3]), reg0=reg0, tables=tables)
  cutoff = cutoff_choice(rng)
  nr = rng.choice(nr_choices or [3, 4, 5, 8, 11, 21, 50, 101, 200, 400])
  model = {"type": "pair", "target": target, "tab": {"nr": nr, "cutoff": cutoff}, "forms": forms, "tables": tables,
           "pair": [[a, b, gen_node(rng, depth, route, reg0=reg0, forms=forms, tables=tables, rmax=cutoff * rmax_scale(nr))] for a, b in pairs]}
  if len(model["pair"]) >= 2 and rng.random() < 0.2:
    # one function serving several species pairs (through the API: one and the same callable object)
    src = model["pair"][0][2]
    for ent in model["pair"][1:]:
      if rng.random() < 0.6:
        ent[2] = copy.deepcopy(src)
    model["share_callables"] = True
  return model


# ------------------------------------------------------------------ EAM models

ELEMENT_DATA = {"Al": (13, 26.98), "Cu": (29, 63.55), "Ni": (28, 58.69), "Fe": (26, 55.85), "Ag": (47, 107.87),
                "Au": (79, 196.97), "U": (92, 238.03), "O": (8, 16.00), "Gd": (64, 157.25), "Si": (14, 28.09),
                "Mg": (12, 24.31), "Zr": (40, 91.22), "H": (1, 1.008), "He": (2, 4.003), "Xe": (54, 131.29),
                "Ti": (22, 47.87)}
LATTICES = ["fcc", "bcc", "hcp", "dia", "sc"]


def gen_eam_model(rng, kind="eam", route="potable", nspecies=None, target=None, depth=1, underspecified=0.25,
                  grids=None, with_forms=True, unique_density=False):
  """EAM / Finnis-Sinclair / ADP model.

  embed: [[A, node]...] in declaration order (defines the element order);
  density: [[A, node]] (eam, adp) or [[A, B, node]] (fs: density at an A site from a B neighbour);
  pair / dipole / quadrupole: any subset of unordered pairs in either species order."""
  n = nspecies or rng.choice([1, 2, 2, 3, 3, 4])
  sp = species_list(rng, n, real=0.7, maxlen=5, lookalike=True)
  # no label may contain '-' or '>' (they are key syntax); our alphabet has neither
  tables, forms = [], []
  if with_forms and rng.random() < 0.4:
    tables = [gen_table(rng, ident(rng, set(), (3, 6)), lo=0.0, hi=rfloat(rng, 30.0, 120.0, 1))]
  if with_forms and route == "potable" and rng.random() < 0.5:
    forms = gen_custom_forms(rng, rng.choice([1, 2]), reg0=True, tables=tables)
  g = grids or {}
  nr = g.get("nr") or rng.choice([2, 3, 5, 8, 17, 50, 101, 300])
  nrho = g.get("nrho") or rng.choice([2, 3, 4, 7, 20, 64, 300])
  cutoff = g.get("cutoff") or cutoff_choice(rng)
  cutoff_rho = g.get("cutoff_rho") or rng.choice([1.0, 5.0, 10.0, 50.0, 100.0, rfloat(rng, 0.5, 100.0, 2), rng.uniform(1, 100)])
  rmax = max(cutoff, cutoff_rho)

  def fn(d=depth):
    return gen_node(rng, d, route, reg0=True, forms=forms, tables=tables, rmax=rmax)

  species = {}
  for s in sp:
    props = {}
    if s not in ELEMENT_DATA:
      props["atomic_number"] = rng.randint(1, 118)
      props["atomic_mass"] = rfloat(rng, 1.0, 250.0, 3)
    else:
      if rng.random() < 0.3:
        props["atomic_mass"] = rfloat(rng, 1.0, 250.0, 3)
      if rng.random() < 0.2:
        props["atomic_number"] = rng.randint(1, 118)
    if rng.random() < 0.5:
      props["lattice_constant"] = rfloat(rng, 2.0, 6.0, 3)
    if rng.random() < 0.5:
      props["lattice_type"] = rng.choice(LATTICES)
    if props:
      species[s] = props
  embed_sp = list(sp)
  rng.shuffle(embed_sp)
  dens_sp = list(sp)
  # under-specified systems: a species present in only one of the two sections
  if n >= 2 and rng.random() < underspecified and route == "potable":
    if rng.random() < 0.5:
      embed_sp = embed_sp[:-1]
    else:
      dens_sp = [s for s in dens_sp if s != embed_sp[0]] if kind != "fs" else dens_sp
  embed = [[s, fn()] for s in embed_sp]
  if kind == "fs":
    density = []
    k = 0
    for a in sp:
      for b in sp:
        if rng.random() < 0.8 or (a == sp[0] and b == sp[-1]):
          k += 1
          if unique_density:
            node = {"k": "form", "name": "polynomial", "p": [0.0, float(UNIQUE_PRIMES[k % len(UNIQUE_PRIMES)]) / 100.0]}
          else:
            node = fn()
          density.append([a, b, node])
    rng.shuffle(density)
    if not density:
      density = [[sp[0], sp[0], fn()]]
  else:
    density = [[s, fn()] for s in dens_sp]
    rng.shuffle(density)

  def pair_subset(p=0.7):
    out = []
    for i in range(len(sp)):
      for j in range(i, len(sp)):
        if rng.random() < p:
          a, b = (sp[i], sp[j]) if rng.random() < 0.5 else (sp[j], sp[i])
          out.append([a, b, fn()])
    rng.shuffle(out)
    return out

  if target is None:
    target = {"eam": rng.choice(["setfl", "lammps_eam_alloy", "DL_POLY_EAM", "excel_eam"]),
              "fs": rng.choice(["setfl_fs", "DL_POLY_EAM_fs", "excel_eam_fs"]), "adp": "eam_adp"}[kind]
  pairs = pair_subset()
  if rng.random() < 0.25:
    # pair potentials that name a species which is NOT an EAM element (e.g. the oxygen of an oxide next to
    # an EAM metal model): they belong to no element pair of the table and must not appear in it
    outsider = label(rng, used=sp, real=0.5, maxlen=5)
    for partner in rng.sample(sp + [outsider], rng.randint(1, min(2, len(sp) + 1))):
      a, b = (outsider, partner) if rng.random() < 0.5 else (partner, outsider)
      pairs.insert(rng.randint(0, len(pairs)), [a, b, fn()])
  model = {"type": kind, "target": target, "tab": {"nr": nr, "cutoff": cutoff, "nrho": nrho, "cutoff_rho": cutoff_rho},
           "forms": forms, "tables": tables, "species": species, "embed": embed, "density": density,
           "pair": pairs, "all_species": sp}
  if kind == "adp":
    model["dipole"] = pair_subset(0.6)
    model["quadrupole"] = pair_subset(0.6)
  if rng.random() < 0.2:
    # one function serving several species (through the API: one and the same callable object)
    for key in ("embed", "density", "pair"):
      ents = model.get(key) or []
      if len(ents) >= 2 and rng.random() < 0.6 and not (key == "density" and unique_density):
        for ent in ents[1:]:
          if rng.random() < 0.6:
            ent[-1] = copy.deepcopy(ents[0][-1])
    model["share_callables"] = True
  return model


UNIQUE_PRIMES = [101, 103, 107, 109, 113, 127, 131, 137, 139, 149, 151, 157, 163, 167, 173, 179, 181, 191, 193, 197, 199, 211, 223, 227, 229]


def eam_element_order(model):
  """Header order: [EAM-Embed] declaration order, followed by zero-filled species (those
  named only by density entries) in sorted order."""
  order = [a for a, _ in model["embed"]]
  extra = set()
  for ent in model["density"]:
    for s in ent[:-1]:
      if s not in order:
        extra.add(s)
  return order + sorted(extra)


def eam_expected_metadata(model, species):
  """(Z, mass, a0, lattice) by precedence [Species] > built-in table > (0.0, fcc)."""
  ov = (model.get("species") or {}).get(species, {})
  base = ELEMENT_DATA.get(species)
  Z = ov.get("atomic_number", base[0] if base else None)
  mass = ov.get("atomic_mass", base[1] if base else None)
  mass_exact = "atomic_mass" in ov
  return Z, mass, mass_exact, ov.get("lattice_constant", 0.0), ov.get("lattice_type", "fcc")


ZERO = {"k": "form", "name": "zero", "p": []}


def rename_symbols(model, mapping):
  """Rename custom forms / table forms of a model (definitions, node references, formula calls)."""
  m = copy.deepcopy(model)

  def rexpr(e):
    if isinstance(e, list):
      if e and e[0] == "call" and e[1] in mapping:
        e[1] = mapping[e[1]]
      for x in e:
        rexpr(x)

  def rnode(n):
    if isinstance(n, dict):
      if n.get("k") in ("custom", "table") and n.get("name") in mapping:
        n["name"] = mapping[n["name"]]
      for v in n.values():
        rnode(v)
    elif isinstance(n, list):
      for v in n:
        rnode(v)

  for f in m.get("forms") or []:
    f["name"] = mapping.get(f["name"], f["name"])
    rexpr(f["expr"])
  for t in m.get("tables") or []:
    t["name"] = mapping.get(t["name"], t["name"])
  for key in ("pair", "embed", "density", "dipole", "quadrupole"):
    for ent in m.get(key) or []:
      rnode(ent[-1])
  return m


def gen_nested_same_start(rng, reg0=True, leading=False):
  """A modifier whose argument is a range '>X' / '>=X' around another modifier, one of whose own arguments
  starts at the same X with the other marker: at r == X exactly the two levels disagree about who acts."""
  X = rng.choice([0.0, 0.5, 1.0, 1.5, 2.0])
  m_outer, m_inner = rng.choice([(">", ">="), (">=", ">"), (">", ">"), (">=", ">=")])
  leaf = lambda: gen_form(rng, reg0=True, names=["constant", "polynomial", "morse", "bornmayer"])
  inner_args = [{"k": "ranges", "parts": [[m_inner, X, leaf()]]}, {"k": "ranges", "parts": [[rng.choice(MARKERS), rng.choice([X, X + 0.5]), leaf()]]}]
  if rng.random() < 0.5:
    inner_args.append(leaf())
  rng.shuffle(inner_args)
  inner = {"k": rng.choice(["sum", "product", "sum"]), "a": inner_args}
  if leading:
    # the shape a "flatten sum(sum(a, b), c) into sum(a, b, c)" rewrite would touch: the nested modifier comes FIRST, is of
    # the outer modifier's kind, starts exclusively ('>X'), and each of its arguments has its own start at or above X, one
    # of them inclusively AT X
    kind = rng.choice(["sum", "product", "sum"])
    inner_args = [{"k": "ranges", "parts": [[">=", X, leaf()]]}, {"k": "ranges", "parts": [[rng.choice(MARKERS), rng.choice([X, X + 0.5]), leaf()]]}]
    rng.shuffle(inner_args)
    wrapped = {"k": "ranges", "parts": [[">", X, {"k": kind, "a": inner_args}]]}
    return {"k": kind, "a": [wrapped, {"k": "ranges", "parts": [[">=", min(X, 0.0), leaf()]]}]}, X
  wrapped = {"k": "ranges", "parts": [[m_outer, X, inner]]}
  others = [{"k": "ranges", "parts": [[">=", min(X, 0.0), leaf()]]}]
  if rng.random() < 0.5:
    others.append(leaf())
  args = [wrapped] + others
  pos = rng.randrange(len(args))
  args[0], args[pos] = args[pos], args[0]
  return {"k": rng.choice(["sum", "product", "sum"]), "a": args}, X


def root_node(rng, r0, variant=None):
  global ROOT_VARIANTS
  """A potential whose energy is EXACTLY 0.0 at r0 (exactly representable) while its slope there is not:
  alone, or as one term / one factor of a modifier tree.  Returns (node, variant)."""
  c = rng.choice([2.0, 4.0, 0.5, -8.0])
  poly = {"k": "form", "name": "polynomial", "p": [-c * r0, c]}
  lj = {"k": "form", "name": "lj", "p": [rfloat(rng, 0.01, 0.5), float(r0)]}     # (sigma/r)**n == 1.0 exactly at r = sigma
  pos = rng.choice([{"k": "form", "name": "bornmayer", "p": [rfloat(rng, 50.0, 900.0), rfloat(rng, 0.3, 0.9)]},
                    {"k": "form", "name": "constant", "p": [rfloat(rng, 0.5, 3.0)]},
                    {"k": "form", "name": "polynomial", "p": [rfloat(rng, 1.0, 3.0), rfloat(rng, 0.1, 1.0)]}])
  zero = {"k": "form", "name": "zero", "p": []}
  variants = ROOT_VARIANTS
  v = variant or rng.choice(variants)
  if v == "poly":
    node = poly
  elif v == "sum_zero":
    node = {"k": "sum", "a": [poly, zero]}
  elif v == "lj":
    node = lj
  elif v == "product_root_first":
    node = {"k": "product", "a": [poly, pos]}
  elif v == "product_root_last":
    node = {"k": "product", "a": [pos, poly]}
  elif v == "product_lj":
    node = {"k": "product", "a": [pos, lj] if rng.random() < 0.5 else [lj, pos]}
  elif v == "product_of_products":
    node = {"k": "product", "a": [{"k": "product", "a": [pos, poly]}, {"k": "form", "name": "constant", "p": [rfloat(rng, 0.5, 2.0)]}]}
  elif v == "pow_exponent_one":
    # X**1 is X: value 0 at the root, slope that of X (the power rule's 1 * X**0 * X')
    node = {"k": "pow", "a": [poly, {"k": "form", "name": "constant", "p": [rng.choice([1, 1.0])]}]}
  elif v == "pow_exponent_one_in_product":
    node = {"k": "product", "a": [pos, {"k": "pow", "a": [poly, {"k": "form", "name": "constant", "p": [rng.choice([1, 1.0])]}]}]}
  else:
    node = {"k": "sum", "a": [{"k": "product", "a": [poly, pos]}, zero]}
  return node, v


ROOT_VARIANTS = ["poly", "sum_zero", "lj", "product_root_first", "product_root_last", "product_lj", "product_of_products", "sum_of_product_and_zero",
                 "pow_exponent_one", "pow_exponent_one_in_product"]


def make_huge(rng, model):
  """Replace one function of a model by one whose values are of order 1e45..1e80 (legitimate for a double, and printed
  in full by every '%f'-style writer): formats that change behaviour with magnitude are reached.  Returns the key changed."""
  keys = [k for k in ("embed", "density", "pair") if model.get(k)]
  key = rng.choice(keys)
  ent = rng.choice(model[key])
  e = rng.randint(45, 80)
  ent[-1] = {"k": "form", "name": "polynomial", "p": [float("%.5ge%d" % (rng.uniform(1, 9) * rng.choice([1, -1]), e)), float("%.5ge%d" % (rng.uniform(1, 9), e - 1))]}
  return key


# parameters that multiply the whole term they belong to (scaling all of them scales the potential: a change of energy unit)
AMPLITUDES = {"buck": [0, 2], "bornmayer": [0], "coul": [0], "constant": [0], "exponential": [0], "hbnd": [0, 1], "lj": [0],
              "morse": [2], "sqrt": [0], "tang_toennies": [0, 2, 3, 4], "zero": []}


def scale_form(node, e):
  """Multiply a plain form node by 10**e through its amplitude parameters (None when the form has none)."""
  name = node.get("name")
  if node.get("k") != "form":
    return None
  if name == "polynomial":
    idx = range(len(node["p"]))
  elif name in AMPLITUDES:
    idx = AMPLITUDES[name]
  else:
    return None
  p = list(node["p"])
  for i in idx:
    p[i] = (p[i] * 10.0 ** e) if p[i] != 0 else 0.0
  return {"k": "form", "name": name, "p": p}


def exact_boundary_model(rng, target, variant, nr=None, dlpoly=False, shared=False):
  """A pair model on a grid that is exact in doubles (dyadic step) with a discontinuity exactly ON a row: the first
  row, an interior row or the last row (= cutoff); or a table form whose data points are the grid rows themselves
  (last x == cutoff).  Returns (model, k) with k the row index (r = k*dr) of the boundary."""
  nr = nr or (rng.choice([8, 12, 20]) if dlpoly else rng.choice([3, 5, 9, 17]))
  dr = rng.choice([0.25, 0.5, 0.125])
  cutoff = (nr - 4) * dr if dlpoly else (nr - 1) * dr       # DL_POLY: delpot = cutoff/(nr-4), rows 1..nr
  klast = nr - 4 if dlpoly else nr - 1                      # the row that coincides with the cutoff
  k = {"first": 1, "last": klast}.get(variant.split(":")[0], rng.randint(1, nr - 1))
  inner = {"k": "form", "name": "polynomial", "p": [rfloat(rng, 1.0, 5.0), rfloat(rng, -1.0, -0.2), rfloat(rng, 0.01, 0.1)]}
  outer = rng.choice([{"k": "form", "name": "zero", "p": []}, {"k": "form", "name": "polynomial", "p": [rfloat(rng, -3.0, -1.0), rfloat(rng, 0.3, 1.0)]},
                      {"k": "form", "name": "constant", "p": [rfloat(rng, 7.0, 9.0)]}])
  tables = []
  if variant.endswith("table"):
    xs = [i * dr for i in range(0 if rng.random() < 0.5 else 1, klast + 1)]
    if len(xs) < 4:
      xs = [i * dr / 2 for i in range(0, 2 * klast + 1)]
    tables = [{"name": "gridtab", "x": xs, "y": [rfloat(rng, -2.0, 2.0, 4) for _ in xs], "as": rng.choice(["xy", "x_y"])}]
    node = {"k": "table", "name": "gridtab"}
    k = klast
  else:
    marker = ">" if variant.endswith(">") else ">="
    node = {"k": "ranges", "parts": [[">", 0.0, inner], [marker, k * dr, outer]]}
  model = {"type": "pair", "target": target, "tab": {"nr": nr, "cutoff": cutoff}, "forms": [], "tables": tables, "pair": [["Ar", "Kr", node]]}
  if shared:
    # the very same callable object serves two potentials (API): the second block starts at row 1 again right after the
    # first block's last row was evaluated
    model["pair"].append(["Kr", "Kr", node])
    model["share_callables"] = True
  return model, k


NEAR_ROW_GRIDS = {False: [(8.0, 1601), (9.99, 58), (10.0, 101), (10.0, 1001), (12.5, 251), (6.0, 601), (7.3, 74), (9.9, 991), (5.0, 51), (8.0, 801), (12.0, 1201)],
                  True: [(10.0, 1004), (8.0, 804), (12.0, 2404), (6.5, 264), (10.0, 504), (7.5, 1504), (9.0, 904), (15.0, 3004)]}
NEAR_ROW_VARIANTS = ["below_row", "above_row", "last_row_at_cutoff", "table_ends_at_cutoff"]


# grids on which (nr-1)*cutoff/(nr-1) - multiply first, then divide - does not give the cutoff back
MULDIV_GRIDS = [(9.99, 58), (7.3, 38), (7.3, 73), (9.99, 116), (7.3, 100), (9.99, 30), (7.3, 145), (9.99, 231)]


def near_row_boundary_model(rng, target, variant, which, dlpoly=False, grids=None):
  """Decimal grids (the step is NOT exact in doubles).  A discontinuity 8 ulps below / above an upper row k: whichever
  rounding of k*step a writer uses, row k is on a definite side - unless its separations drift (a running sum
  r += step is tens of ulps off after a few hundred rows).  LAMMPS only: a discontinuity just above the cutoff, or
  table data ending exactly AT the cutoff - the last row is the declared 'hi' itself and belongs to the inner side.
  Returns (model, k): row k (1-based) is judged strictly."""
  import math
  grids = grids or NEAR_ROW_GRIDS[bool(dlpoly)]
  cutoff, nr = grids[which % len(grids)]
  nrows = nr if dlpoly else nr - 1
  step = cutoff / (nr - 4) if dlpoly else cutoff / (nr - 1)
  inner = {"k": "form", "name": "polynomial", "p": [rfloat(rng, 1.0, 5.0), rfloat(rng, -0.2, -0.05), rfloat(rng, 0.001, 0.01)]}
  outer = rng.choice([{"k": "form", "name": "zero", "p": []}, {"k": "form", "name": "constant", "p": [rfloat(rng, 70.0, 90.0)]}])
  tables = []
  if variant == "last_row_at_cutoff":
    k = nr - 1
    node = {"k": "ranges", "parts": [[">", 0.0, inner], [">", cutoff, outer]]}
  elif variant == "table_ends_at_cutoff":
    k = nr - 1
    n = rng.choice([5, 9, 17])
    xs = [cutoff * i / (n - 1) for i in range(n)]
    xs[-1] = cutoff
    tables = [{"name": "gridtab", "x": xs, "y": [rfloat(rng, 1.0, 2.0, 4) for _ in xs], "as": rng.choice(["xy", "x_y"])}]
    node = {"k": "table", "name": "gridtab"}
  else:
    k = rng.randint((2 * nrows) // 3, nrows - 1)
    rk = k * step
    for _ in range(8):
      rk = math.nextafter(rk, 0.0 if variant == "below_row" else math.inf)
    node = {"k": "ranges", "parts": [[">", 0.0, inner], [">=" if variant == "below_row" else ">", rk, outer]]}
  model = {"type": "pair", "target": target, "tab": {"nr": nr, "cutoff": cutoff}, "forms": [], "tables": tables, "pair": [["Ar", "Kr", node]]}
  return model, k


EXACT_BOUNDARY_VARIANTS = ["first:>", "first:>=", "middle:>", "middle:>=", "last:>", "last:>=", "grid:table"]


def exact_boundary_eam(rng, kind, target, route="potable"):
  """EAM / FS model on r and rho grids that are exact in doubles, every function with a discontinuity exactly on a row
  (first, interior or last = cutoff).  Returns the model; model['exact_rows'] lists the rows to look at."""
  nr, nrho = rng.choice([5, 9, 17]), rng.choice([3, 5, 9])
  dr, drho = rng.choice([0.25, 0.5, 0.125]), rng.choice([0.5, 1.0, 0.25])
  m = gen_eam_model(rng, kind, route, target=target, grids={"nr": nr, "nrho": nrho}, nspecies=rng.choice([1, 2]), underspecified=0)
  m["tab"]["cutoff"] = (nr - 1) * dr
  m["tab"]["cutoff_rho"] = (nrho - 1) * drho
  m["forms"], m["tables"] = [], []
  rows_r, rows_rho = set(), set()

  def stepfn(n, step, rows, positive=False):
    k = rng.choice([1, n - 1, rng.randint(1, n - 1)])
    rows.add(k)
    a = {"k": "form", "name": "polynomial", "p": [rfloat(rng, 1.0, 5.0), rfloat(rng, 0.05, 0.5)]}
    b = rng.choice([{"k": "form", "name": "zero", "p": []}, {"k": "form", "name": "constant", "p": [rfloat(rng, 7.0, 9.0)]},
                    {"k": "form", "name": "polynomial", "p": [rfloat(rng, 10.0, 12.0), rfloat(rng, 0.3, 1.0)]}])
    return {"k": "ranges", "parts": [[">=" if route == "potable" and rng.random() < 0.5 else ">", 0.0, a], [rng.choice([">", ">="]), k * step, b]]}

  for ent in m["embed"]:
    ent[-1] = stepfn(nrho, drho, rows_rho)
  for ent in m["density"]:
    ent[-1] = stepfn(nr, dr, rows_r)
  for ent in m["pair"]:
    ent[-1] = stepfn(nr, dr, rows_r)
  for key in ("dipole", "quadrupole"):
    for ent in m.get(key) or []:
      ent[-1] = stepfn(nr, dr, rows_r)
  m["exact_rows"] = {"r": sorted(rows_r), "rho": sorted(rows_rho)}
  return m


def edge_sizes(tier, multiple_of=1, lo=2):
  """Row counts at which a blocked / chunked / off-by-one loop would show: everything small, and m*10^k, 2^k and
  multiples of 5000 each with their neighbours (a sweep over sizes, not a sample of typical ones)."""
  out = set(range(lo, 70))
  for k in range(1, 5):
    for m in range(1, 10):
      for d in (-1, 0, 1):
        out.add(m * 10 ** k + d)
  for k in range(3, 17):
    for d in (-1, 0, 1):
      out.add(2 ** k + d)
  for m in range(1, 9):
    for d in (-1, 0, 1):
      out.add(5000 * m + d)
  top = 20100 if tier == "quick" else 100001
  if tier != "quick":
    out.update([100000, 100001, 99999, 65535, 65536, 65537, 60001, 80001])
  out = sorted(n for n in out if lo <= n <= top)
  # beyond any table anybody tabulates, where a writer working in slabs / chunks of 2^17 or 2^18 rows would start its
  # second slab (quick: one size past each; thorough: the neighbours as well and up to 2^21)
  out += [131073, 262145] if tier == "quick" else [131071, 131072, 131073, 200001, 262143, 262144, 262145, 524289, 1000001, 1048577, 2097153]
  if multiple_of > 1:
    out = sorted(set((n // multiple_of) * multiple_of for n in out if n >= multiple_of) | set(((n // multiple_of) + 1) * multiple_of for n in out))
  return out


def share_leading_range(rng, model, keys=("density", "pair", "embed", "dipole", "quadrupole")):
  """Give two entries of one section the SAME leading range (form, parameters and start) but different later ranges:
  'A : dens 2.0 0.5 >=3 product(...)' next to 'B : dens 2.0 0.5 >=3 trans(...)'.  Anything that identifies a definition
  by how it starts would mix the two up.  (potable route.)  Returns the number of sections changed."""
  n = 0
  for key in keys:
    ents = model.get(key) or []
    if len(ents) < 2:
      continue
    i, j = rng.sample(range(len(ents)), 2)
    m0 = rng.choice([">", ">="])
    s0 = 0.0
    first = {"k": "form", "name": "bornmayer", "p": [rfloat(rng, 1.0, 50.0), rfloat(rng, 0.3, 1.5)]}
    m1, s1 = rng.choice([">", ">="]), rfloat(rng, 0.5, 3.0, 2)
    later = [{"k": "product", "a": [{"k": "form", "name": "polynomial", "p": [rfloat(rng, 0.1, 2.0), rfloat(rng, 0.01, 0.3)]}, {"k": "form", "name": "constant", "p": [rfloat(rng, 0.5, 2.0)]}]},
             {"k": "trans", "f": {"k": "form", "name": "polynomial", "p": [rfloat(rng, 2.0, 4.0), rfloat(rng, 0.01, 0.3)]}, "x": rfloat(rng, 0.1, 1.0)},
             {"k": "form", "name": "constant", "p": [rfloat(rng, 5.0, 9.0)]},
             {"k": "sum", "a": [{"k": "form", "name": "constant", "p": [rfloat(rng, 10.0, 12.0)]}, {"k": "form", "name": "polynomial", "p": [0.0, rfloat(rng, 0.1, 1.0)]}]}]
    a, b = rng.sample(later, 2)
    ents[i][-1] = {"k": "ranges", "parts": [[m0, s0, dict(first)], [m1, s1, a]]}
    ents[j][-1] = {"k": "ranges", "parts": [[m0, s0, dict(first)], [m1, s1, b]]}
    n += 1
  return n


def rename_species(model, mapping):
  """Rename the species labels of a model (all sections, [Species] overrides included)."""
  m = copy.deepcopy(model)
  g = lambda x: mapping.get(x, x)
  if m.get("all_species"):
    m["all_species"] = [g(x) for x in m["all_species"]]
  for key in ("pair", "embed", "density", "dipole", "quadrupole"):
    for ent in m.get(key) or []:
      for k in range(len(ent) - 1):
        ent[k] = g(ent[k])
  if m.get("species"):
    m["species"] = {g(k): v for k, v in m["species"].items()}
  return m


def hyphenated_species_model(rng, kind, target):
  """Four elements A, A-B, B-C, C (labels with hyphens are possible through the Python API only) with different pair
  potentials declared for (A, B-C) and (A-B, C): as text both pairs read 'A-B-C'."""
  m = gen_eam_model(rng, kind, "api", nspecies=4, target=target, underspecified=0, with_forms=False)
  sp = m["all_species"]
  a, b, c = "Al", "O", "H"
  m = rename_species(m, {sp[0]: a, sp[1]: "%s-%s" % (a, b), sp[2]: "%s-%s" % (b, c), sp[3]: c})
  mk = lambda v: {"k": "form", "name": "polynomial", "p": [v, rfloat(rng, 0.1, 1.0)]}
  m["pair"] = [[a, "%s-%s" % (b, c), mk(3.0)], ["%s-%s" % (a, b), c, mk(-5.0)], [a, a, mk(1.0)]]
  rng.shuffle(m["pair"])
  if m.get("species"):
    for k_ in list(m["species"]):
      m["species"][k_].setdefault("atomic_number", 13)
      m["species"][k_].setdefault("atomic_mass", 26.98)
  for k_ in m["all_species"]:
    m.setdefault("species", {}).setdefault(k_, {}).setdefault("atomic_number", 13)
    m["species"][k_].setdefault("atomic_mass", 26.98)
  return m


def ion_labels(rng, model):
  """The same model with its species labelled as ions ('F-', 'Cl-', 'Na+', 'Ca2+'): a label that ENDS in a hyphen next to
  the arrow of an 'A->B' key reads 'F-->Ca'.  Labels ending in a hyphen cannot be written in 'A-B' keys, so pair-like
  entries involving them are dropped (those pairs are then undeclared = zero).  Every label gets [Species] data."""
  pool = ["F-", "Na+", "Cl-", "Ca2+", "O-", "K+"]
  rng.shuffle(pool)
  if not any(x.endswith("-") for x in pool[:max(1, len(model.get("all_species") or []))]):
    pool.insert(0, "F-")
  names = list(model.get("all_species") or [])
  mapping = {n_: pool[i % len(pool)] for i, n_ in enumerate(names)}
  m = rename_species(model, mapping)
  for key in ("pair", "dipole", "quadrupole"):
    if m.get(key):
      m[key] = [e for e in m[key] if not (e[0].endswith("-") or e[1].endswith("-") or "-" in e[0][:-1] or "-" in e[1][:-1])]
  for i, k_ in enumerate(m["all_species"]):
    d = m.setdefault("species", {}).setdefault(k_, {})
    d.setdefault("atomic_number", 9 + i)
    d.setdefault("atomic_mass", 19.0 + i)
  return m


def numeric_species(rng, model):
  """The same model with its species labelled by number ('9', '10', '2', '100'): text order and numeric order differ."""
  pool = ["9", "10", "2", "100", "11", "1"]
  names = list(model.get("all_species") or [])
  for key in ("pair", "dipole", "quadrupole"):
    for ent in model.get(key) or []:
      for x in ent[:2]:
        if x not in names:
          names.append(x)
  mapping = {n_: pool[i % len(pool)] for i, n_ in enumerate(names)}
  m = rename_species(model, mapping)
  for k_ in m.get("all_species") or []:
    m.setdefault("species", {}).setdefault(k_, {}).setdefault("atomic_number", rng.randint(1, 90))
    m["species"][k_].setdefault("atomic_mass", rfloat(rng, 1.0, 200.0, 2))
  return m


def long_labels(rng, model):
  """The same model with long species labels that share their first eight (and first twelve) characters - 'Zirconium_a',
  'Zirconium_b', 'Zirconium_a_2', 'Zirconiu': nothing in the model language limits a label's length, so a comparison of
  labels cut to a fixed width (DL_POLY's 8-character atom names, seeded change C05r10) merges them."""
  pool = ["Zirconium_a", "Zirconium_b", "Zirconium_a_2", "Zirconiu", "Zirconium_a_3", "Zirconium"]
  rng.shuffle(pool)
  names = list(model.get("all_species") or [])
  for key in ("pair", "dipole", "quadrupole"):
    for ent in model.get(key) or []:
      for x in ent[:2]:
        if x not in names:
          names.append(x)
  mapping = {n_: pool[i % len(pool)] for i, n_ in enumerate(names)}
  m = rename_species(model, mapping)
  for i, k_ in enumerate(m.get("all_species") or []):
    d = m.setdefault("species", {}).setdefault(k_, {})
    d.setdefault("atomic_number", 40 + i)
    d.setdefault("atomic_mass", 91.2 + i)
  return m
