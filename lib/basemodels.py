"""Feature-rich, valid base models (as ordered INI items) used by the malformation (C16)
and duplication (C20) catalogues: every section and construct the operators act on is
present.  Parameters are seeded so that operators meet different values."""
import spec
from spec import fnum, rfloat

PAIR_TARGETS = ["LAMMPS", "DLPOLY", "DL_POLY", "GULP", "excel"]
EAM_TARGETS = ["setfl", "lammps_eam_alloy", "DL_POLY_EAM", "excel_eam"]
FS_TARGETS = ["setfl_fs", "DL_POLY_EAM_fs", "excel_eam_fs"]
ADP_TARGETS = ["eam_adp"]


def kind_of(target):
  if target in PAIR_TARGETS:
    return "pair"
  if target in EAM_TARGETS or target == "LAMMPS_eam_alloy":
    return "eam"
  if target in FS_TARGETS:
    return "fs"
  return "adp"


def n(rng, lo, hi, nd=3):
  return fnum(rfloat(rng, lo, hi, nd))


def base_items(rng, target):
  kind = kind_of(target)
  A, B, C = spec.species_list(rng, 3, real=1.0)
  nr = rng.choice([8, 12]) if target in ("DLPOLY", "DL_POLY") else rng.choice([5, 6, 9])
  tab = [("target", target), ("nr", str(nr)), ("cutoff", n(rng, 5.5, 8.0, 1))]
  if kind != "pair":
    tab += [("nrho", str(rng.choice([3, 4, 6]))), ("cutoff_rho", n(rng, 2.0, 9.0, 1))]
  rd, rm, ra = 1.0, 1.5, 2.0
  pair = [
    ("%s-%s" % (A, B), "as.bornmayer %s %s" % (n(rng, 500, 2000), n(rng, 0.2, 0.4))),
    ("%s-%s" % (B, B), "sum(as.bornmayer %s %s, cf %s %s)" % (n(rng, 500, 900), n(rng, 0.2, 0.4), n(rng, 1, 3), n(rng, 0.5, 2))),
    ("%s-%s" % (A, A), "spline(as.bornmayer %s %s >=0.8 exp_spline >=1.4 as.morse %s %s %s)" % (n(rng, 900, 2000), n(rng, 0.25, 0.4), n(rng, 1, 2), n(rng, 1.5, 2.5), n(rng, 0.2, 1))),
    ("%s-%s" % (A, C), "spline(as.bornmayer %s %s >%s buck4_spline %s >%s as.polynomial %s %s)" % (n(rng, 500, 1500), n(rng, 0.25, 0.4), fnum(rd), fnum(rm), fnum(ra), n(rng, -1, 1), n(rng, -0.1, 0.1))),
    ("%s-%s" % (B, C), "trans(as.morse %s %s %s, as.constant %s)" % (n(rng, 1, 2), n(rng, 1.5, 2.5), n(rng, 0.2, 1), n(rng, 0.1, 0.9))),
    ("%s-%s" % (C, C), ">0 as.morse %s %s %s >=3.0 tbl" % (n(rng, 1, 2), n(rng, 1.5, 2.5), n(rng, 0.2, 1))),
  ]
  forms = [("cf(r, A, rho)", "A*exp(-r/rho) + other(r, %s)" % n(rng, 0.5, 2.0)),
           ("other(r, k)", "k/(r+1) + pymath.tanh(0.1*r)")]
  xs = [0.0, 1.0, 2.5, 4.0, 6.0, 9.0]
  ys = [rfloat(rng, -2, 2, 3) for _ in xs]
  tbl = [("interpolation", "cubic_spline"), ("x", " ".join(fnum(x) for x in xs)), ("y", " ".join(fnum(y) for y in ys))]
  secs = [("Tabulation", tab), ("Pair", pair)]
  if kind != "pair":
    secs.append(("EAM-Embed", [(A, "as.polynomial 0.0 %s %s" % (n(rng, -2, -0.5), n(rng, 0.01, 0.1))), (B, "product(as.sqrt %s, as.constant -1.0)" % n(rng, 0.5, 2)), (C, "cf %s %s" % (n(rng, 1, 3), n(rng, 0.5, 2)))]))
    if kind == "fs":
      dens = []
      for a in (A, B, C):
        for b in (A, B, C):
          dens.append(("%s->%s" % (a, b), "%sas.bornmayer %s %s" % (">=0 " if a == b else "", n(rng, 1, 30), n(rng, 0.5, 2.0))))
      secs.append(("EAM-Density", dens))
    else:
      secs.append(("EAM-Density", [(A, ">=0 as.bornmayer %s %s" % (n(rng, 1, 30), n(rng, 0.5, 2.0))), (B, "tbl"), (C, "as.morse %s %s %s" % (n(rng, 0.5, 1.5), n(rng, 1.5, 2.5), n(rng, 0.2, 1)))]))
    if kind == "adp":
      secs.append(("EAM-ADP-Dipole", [("%s-%s" % (A, A), "as.bornmayer %s %s" % (n(rng, 1, 5), n(rng, 0.5, 1))), ("%s-%s" % (B, A), "as.polynomial %s %s" % (n(rng, -1, 1), n(rng, -0.1, 0.1)))]))
      secs.append(("EAM-ADP-Quadrupole", [("%s-%s" % (C, A), "as.bornmayer %s %s" % (n(rng, 1, 5), n(rng, 0.5, 1)))]))
  secs.append(("Potential-Form", forms))
  secs.append(("Table-Form:tbl", tbl))
  secs.append(("Species", [("%s.lattice_constant" % A, n(rng, 3, 5)), ("%s.atomic_mass" % B, n(rng, 10, 200)), ("%s.lattice_type" % C, "bcc")]))
  return {"kind": kind, "species": [A, B, C], "items": [[s, [list(kv) for kv in its]] for s, its in secs]}


def items_text(items, header=True):
  out = []
  for s, its in items:
    lines = (["[%s]" % s] if s is not None else [])
    for k, v in its:
      if k is None:
        lines.append(v)
      else:
        lines.append("%s : %s" % (k, v))
    out.append("\n".join(lines))
  return "\n\n".join(out) + "\n"


def sec(items, name):
  for s in items:
    if s[0] == name:
      return s
  return None


def find(items, section, pred):
  s = sec(items, section)
  if s is None:
    return None
  for kv in s[1]:
    if pred(kv[0], kv[1]):
      return kv
  return None
