"""Check driver: case generation, sharded execution in subprocesses, anchor-reach
monitor, verdicts (held / violated / inconclusive), known-finding classification and
evidence writing.  See DESIGN.md section 2.

A check module (checks/cNN.py) provides
  PROPERTY_ID, LEVEL, RULE, ASSUMPTIONS (list), ANCHORS (list of 'file.py:qualname'
  substrings that must have been entered), MIN_NONTRIVIAL (dict tier->int),
  gen_cases(rng, tier) -> list of JSON-able dicts,
  run_case(case, ctx) -> None   (records into ctx),
  optional: setup_worker(), EXHAUSTIVE (bool or callable(tier)), finish(merged) hook, cross_check(merged) -> [(result id, kind, msg, sig)].
"""
import argparse
import hashlib
import importlib
import json
import os
import random
import re
import subprocess
import sys
import tempfile
import time
import traceback

VERIF_ROOT = os.path.dirname(os.path.dirname(os.path.abspath(__file__)))
NCPU = os.cpu_count() or 4


# --------------------------------------------------------------------------- ctx

class Ctx(object):
  """Per-case recorder handed to run_case()."""

  def __init__(self, case):
    self.case = case
    self.violations = []
    self.counters = {}
    self.classes = set()
    self.is_nontrivial = False
    self.notes = []

  def count(self, name, n=1):
    self.counters[name] = self.counters.get(name, 0) + n

  def cls(self, name):
    self.classes.add(str(name))

  def nontrivial(self, flag=True):
    if flag:
      self.is_nontrivial = True

  def violation(self, kind, msg, **sig):
    """Record a violation.  `sig` is the structural signature used by the
    known-finding classifier (strings only)."""
    s = {"kind": str(kind)}
    for k, v in sig.items():
      s[k] = str(v)
    self.violations.append({"kind": kind, "msg": str(msg)[:2000], "sig": s})

  def note(self, msg):
    if len(self.notes) < 5:
      self.notes.append(str(msg)[:500])


def exc_sig(exc):
  """(exception type name, innermost repo function) of an exception."""
  tb = exc.__traceback__
  inner = None
  tree = os.environ.get("VERIF_REPO", "/repo")
  while tb is not None:
    fn = tb.tb_frame.f_code.co_filename
    if fn.startswith(tree + os.sep) or "/atsim/potentials/" in fn:
      inner = "%s:%s" % (os.path.basename(fn), tb.tb_frame.f_code.co_name)
    tb = tb.tb_next
  return type(exc).__name__, inner or "?"


# ----------------------------------------------------------------- anchor reach

class AnchorReach(object):
  """sys.monitoring PY_START recorder restricted to the tree under test.  Each code
  object is reported once (DISABLE afterwards), so the cost is negligible."""

  def __init__(self, tree):
    self.tree = os.path.join(tree, "atsim") + os.sep
    self.seen = set()
    self.active = False

  def start(self):
    mon = getattr(sys, "monitoring", None)
    if mon is None:
      return
    self.mon = mon
    self.tool = mon.PROFILER_ID
    try:
      mon.use_tool_id(self.tool, "verif-anchor")
    except ValueError:
      return
    mon.register_callback(self.tool, mon.events.PY_START, self._cb)
    mon.set_events(self.tool, mon.events.PY_START)
    self.active = True

  def _cb(self, code, offset):
    fn = code.co_filename
    if fn.startswith(self.tree):
      self.seen.add("%s:%s" % (fn[len(self.tree):], code.co_qualname))
    return self.mon.DISABLE

  def stop(self):
    if self.active:
      self.mon.set_events(self.tool, 0)
      self.mon.free_tool_id(self.tool)
      self.active = False


# ----------------------------------------------------------------------- worker

def case_hash(case):
  c = dict(case)
  c.pop("_id", None)
  return hashlib.sha1(json.dumps(c, sort_keys=True, default=str).encode()).hexdigest()[:16]


def worker_main(argv):
  check_id, casefile, shard, nshards, outfile = argv[0], argv[1], int(argv[2]), int(argv[3]), argv[4]
  import bootstrap  # pins the tree (raises WrongTree)
  mod = importlib.import_module("checks.%s" % check_id.lower())
  with open(casefile) as f:
    cases = json.load(f)
  mine = cases[shard::nshards]
  reach = AnchorReach(bootstrap.TREE)
  reach.start()
  if hasattr(mod, "setup_worker"):
    mod.setup_worker()
  results = []
  t0 = time.time()
  for case in mine:
    ctx = Ctx(case)
    try:
      mod.run_case(case, ctx)
    except Exception as e:  # a crash of the harness itself is never a verdict
      ctx.violations.append({"kind": "HARNESS_ERROR", "msg": traceback.format_exc()[-3000:],
                             "sig": {"kind": "HARNESS_ERROR", "exc": type(e).__name__}})
    results.append({"id": case.get("_id"), "hash": case_hash(case),
                    "violations": ctx.violations, "counters": ctx.counters,
                    "classes": sorted(ctx.classes), "nontrivial": ctx.is_nontrivial,
                    "notes": ctx.notes})
  extra = {}
  if hasattr(mod, "worker_summary"):
    extra = mod.worker_summary()
  reach.stop()
  with open(outfile, "w") as f:
    json.dump({"results": results, "anchors": sorted(reach.seen), "extra": extra,
               "tree_file": bootstrap.atsim_potentials.__file__,
               "wall": time.time() - t0}, f)
  return 0


# ----------------------------------------------------------------- known findings

def load_known(prop):
  path = os.path.join(VERIF_ROOT, "known_findings.json")
  if not os.path.exists(path):
    return []
  with open(path) as f:
    data = json.load(f)
  return [e for e in data.get("findings", []) if e.get("property") == prop and e.get("status") == "known"]


def classify(sig, known):
  """Return the known-finding entry whose matcher explains `sig`, or None."""
  for e in known:
    m = e.get("match", {})
    ok = bool(m)
    for k, pat in m.items():
      v = sig.get(k)
      if v is None or re.fullmatch(pat, v, re.S) is None:
        ok = False
        break
    if ok:
      return e
  return None


# ----------------------------------------------------------------------- driver

def ensure_deps():
  if not os.path.exists(os.path.join(VERIF_ROOT, ".deps", ".ok")):
    r = subprocess.run(["sh", os.path.join(VERIF_ROOT, "setup.sh")], capture_output=True, text=True)
    if r.returncode != 0:
      print("INCONCLUSIVE reason=setup-failed %s" % r.stderr.strip()[:300])
      sys.exit(2)


def write_evidence(prop, ev):
  os.makedirs(os.path.join(VERIF_ROOT, "evidence"), exist_ok=True)
  path = os.path.join(VERIF_ROOT, "evidence", "%s.json" % prop)
  try:
    import jsonschema
    with open("/root/.vp/EVIDENCE.schema.json") as f:
      schema = json.load(f)
    jsonschema.validate(ev, schema)
  except ImportError:
    pass
  except FileNotFoundError:
    pass
  with open(path, "w") as f:
    json.dump(ev, f, indent=1, sort_keys=True, default=str)
  return path


def main(argv=None):
  ap = argparse.ArgumentParser()
  ap.add_argument("check")
  ap.add_argument("--tier", default=os.environ.get("VERIF_TIER", "quick"), choices=["quick", "thorough"])
  ap.add_argument("--seed", type=int, default=int(os.environ.get("VERIF_SEED", "0") or 0))
  ap.add_argument("--replay")
  ap.add_argument("--repo", default=os.environ.get("VERIF_REPO", "/repo"))
  ap.add_argument("--jobs", type=int, default=int(os.environ.get("VERIF_JOBS", str(NCPU))))
  ap.add_argument("--keep", action="store_true")
  ap.add_argument("--max-cases", type=int, default=0)
  args = ap.parse_args(argv)

  os.environ["VERIF_REPO"] = os.path.abspath(args.repo)
  os.environ["VERIF_TIER"] = args.tier
  os.environ["VERIF_SEED"] = str(args.seed)
  ensure_deps()
  sys.path.insert(0, os.path.join(VERIF_ROOT, "lib"))
  sys.path.insert(0, VERIF_ROOT)
  try:
    import bootstrap
  except Exception as e:
    print("INCONCLUSIVE property=%s reason=import-failed %r" % (args.check, e))
    return 2

  check_id = args.check.upper()
  mod = importlib.import_module("checks.%s" % check_id.lower())
  prop = mod.PROPERTY_ID
  t0 = time.time()

  if args.replay:
    with open(args.replay) as f:
      rep = json.load(f)
    cases = [rep["case"]]
    jobs = 1
  else:
    rng = random.Random(args.seed * 1000003 + 17)
    cases = mod.gen_cases(rng, args.tier)
    if args.max_cases:
      cases = cases[:args.max_cases]
    jobs = max(1, min(args.jobs, len(cases)))
  for i, c in enumerate(cases):
    c["_id"] = i

  tmpd = tempfile.mkdtemp(prefix="verif-%s-" % check_id)
  casefile = os.path.join(tmpd, "cases.json")
  with open(casefile, "w") as f:
    json.dump(cases, f)
  timeout = getattr(mod, "SHARD_TIMEOUT", {}).get(args.tier, 1500 if args.tier == "quick" else 7200)
  env = bootstrap.child_env({"VERIF_TMP": tmpd})
  procs = []
  for s in range(jobs):
    out = os.path.join(tmpd, "out%d.json" % s)
    cmd = [sys.executable, "-c", "import sys; sys.path.insert(0, %r); import harness; sys.exit(harness.worker_main(sys.argv[1:]))"
           % os.path.join(VERIF_ROOT, "lib"), check_id, casefile, str(s), str(jobs), out]
    p = subprocess.Popen(cmd, env=env, cwd=VERIF_ROOT, stdout=subprocess.PIPE, stderr=subprocess.PIPE, text=True)
    procs.append((p, out))

  inconclusive = []
  merged = []
  anchors = set()
  extras = []
  tree_files = set()
  deadline = time.time() + timeout
  for p, out in procs:
    try:
      so, se = p.communicate(timeout=max(1, deadline - time.time()))
    except subprocess.TimeoutExpired:
      p.kill()
      p.communicate()
      inconclusive.append("shard-watchdog")
      continue
    if p.returncode != 0 or not os.path.exists(out):
      inconclusive.append("shard-crashed rc=%s %s" % (p.returncode, (se or "")[-800:].replace("\n", " | ")))
      continue
    with open(out) as f:
      d = json.load(f)
    merged.extend(d["results"])
    anchors.update(d["anchors"])
    extras.append(d.get("extra", {}))
    tree_files.add(d.get("tree_file"))

  # cross-case invariants (a behaviour that must be the same in every case of the run): the check module may turn what
  # the cases recorded into violations attached to a witness case
  if hasattr(mod, "cross_check"):
    try:
      by_rid = {r["id"]: r for r in merged}
      for rid, kind, msg, sig in mod.cross_check(merged) or []:
        sg = {"kind": str(kind)}
        sg.update({k: str(v) for k, v in (sig or {}).items()})
        by_rid[rid]["violations"].append({"kind": kind, "msg": str(msg)[:2000], "sig": sg})
    except Exception as e:
      inconclusive.append("cross-check-error %r" % (e,))

  # ---------------------------------------------------------------- verdict
  known = load_known(prop)
  by_id = {c["_id"]: c for c in cases}
  counters = {}
  classes = {}
  hashes_nontrivial = set()
  viol_unknown = []
  known_hits = {}
  harness_errors = []
  for r in merged:
    for k, v in r["counters"].items():
      counters[k] = counters.get(k, 0) + v
    for c in r["classes"]:
      classes[c] = classes.get(c, 0) + 1
    if r["nontrivial"]:
      hashes_nontrivial.add(r["hash"])
    for v in r["violations"]:
      if v["kind"] == "HARNESS_ERROR":
        harness_errors.append((r, v))
        continue
      e = classify(v["sig"], known)
      if e is not None:
        known_hits.setdefault(e["key"], [e, 0])
        known_hits[e["key"]][1] += 1
      else:
        viol_unknown.append((r, v))

  missing_anchors = []
  for a in getattr(mod, "ANCHORS", []):
    if not any(a in s for s in anchors):
      missing_anchors.append(a)
  if missing_anchors and not args.replay:
    inconclusive.append("anchors-not-reached:" + ",".join(missing_anchors))
  if harness_errors:
    inconclusive.append("harness-error: " + harness_errors[0][1]["msg"][-600:].replace("\n", " | "))
  if len(merged) < len(cases) and not inconclusive:
    inconclusive.append("missing-results")
  need = getattr(mod, "MIN_NONTRIVIAL", {}).get(args.tier, 2)
  if not args.replay and len(hashes_nontrivial) < need:
    inconclusive.append("too-few-nontrivial-cases %d<%d" % (len(hashes_nontrivial), need))
  for key, minimum in getattr(mod, "MIN_COUNTERS", {}).items():
    if not args.replay and counters.get(key, 0) < minimum:
      inconclusive.append("monitor-counter %s=%d<%d" % (key, counters.get(key, 0), minimum))

  # replay files for unexplained violations
  os.makedirs(os.path.join(VERIF_ROOT, "replays"), exist_ok=True)
  lines = []
  seen_kinds = {}
  for r, v in viol_unknown:
    kk = json.dumps(v["sig"], sort_keys=True)
    seen_kinds[kk] = seen_kinds.get(kk, 0) + 1
    if seen_kinds[kk] > 3:
      continue
    case = by_id.get(r["id"])
    path = os.path.join(VERIF_ROOT, "replays", "%s-%s-%s.json" % (prop, v["kind"], r["hash"]))
    with open(path, "w") as f:
      json.dump({"property": prop, "case": case, "violation": v, "tier": args.tier, "seed": args.seed}, f, indent=1, default=str)
    lines.append("VIOLATION property=%s replay=%s" % (prop, path))
    lines.append("  # %s: %s" % (v["kind"], v["msg"][:400].replace("\n", " | ")))

  for key, (e, n) in sorted(known_hits.items()):
    print("KNOWN-FINDING: property=%s %s [%s] (observed %d times this run)" % (prop, e["what_fails"], key, n))

  samples = []
  step = max(1, len(cases) // 4)
  for c in cases[::step][:4]:
    cc = dict(c)
    s = json.dumps(cc, default=str)
    samples.append(cc if len(s) < 4000 else {"truncated": s[:4000]})
  exhaustive = getattr(mod, "EXHAUSTIVE", False)
  if callable(exhaustive):
    exhaustive = bool(exhaustive(args.tier))
  extra_cov = {}
  if hasattr(mod, "finish"):
    try:
      extra_cov = mod.finish(merged, extras, counters) or {}
    except Exception as e:
      inconclusive.append("finish-hook-error %r" % (e,))
  if inconclusive:
    verdict = "inconclusive"
  elif viol_unknown:
    verdict = "violated"
  else:
    verdict = "held"
  cov = {
    "evaluations": max(1, len(merged)) if merged else 1,
    "distinct_nontrivial": len(hashes_nontrivial),
    "rule": mod.RULE,
    "samples": samples or [{"none": True}],
    "exhaustive": bool(exhaustive),
    "monitor_counters": counters,
    "classes_covered": classes,
    "anchors_required": getattr(mod, "ANCHORS", []),
    "anchors_missing": missing_anchors,
    "repo_functions_entered": len(anchors),
    "known_finding_hits": {k: n for k, (e, n) in known_hits.items()},
    "verdict": verdict,
    "inconclusive_reasons": inconclusive,
    "tree": sorted(x for x in tree_files if x),
    "shards": jobs,
  }
  cov.update(extra_cov)
  if len(hashes_nontrivial) < 2:
    # schema demands >= 2; an inconclusive run must not masquerade as evidence.
    cov["distinct_nontrivial"] = len(hashes_nontrivial)
  ev = {
    "property_id": prop, "tier": args.tier, "seed": args.seed, "level": mod.LEVEL,
    "coverage": cov, "assumptions": getattr(mod, "ASSUMPTIONS", []),
    "wall_s": round(time.time() - t0, 2), "violations": len(viol_unknown),
  }
  # evidence describes /repo itself: runs against scratch copies (selftest, seeded changes) never write it
  if not args.replay and os.path.abspath(args.repo) == "/repo":
    try:
      write_evidence(prop, ev)
    except Exception as e:
      if not inconclusive and not viol_unknown:
        inconclusive.append("evidence-invalid %s" % (str(e)[:300],))

  if not args.keep:
    import shutil
    shutil.rmtree(tmpd, ignore_errors=True)

  for l in lines:
    print(l)
  summary = "property=%s tier=%s seed=%d cases=%d nontrivial=%d violations=%d known=%d wall=%.1fs" % (
    prop, args.tier, args.seed, len(merged), len(hashes_nontrivial), len(viol_unknown),
    sum(n for e, n in known_hits.values()), time.time() - t0)
  if viol_unknown:
    print("FAIL " + summary)
    return 1
  if inconclusive:
    print("INCONCLUSIVE property=%s reason=%s" % (prop, "; ".join(inconclusive)[:1500]))
    print("INCONCLUSIVE " + summary)
    return 2
  print("HELD " + summary)
  print("  counters: " + json.dumps(counters, sort_keys=True)[:1500])
  return 0


if __name__ == "__main__":
  try:
    rc = main()
  except SystemExit:
    raise
  except BaseException as e:  # a crash of the driver is never a verdict
    print("INCONCLUSIVE reason=driver-crashed %s: %s" % (type(e).__name__, str(e)[:500]))
    traceback.print_exc()
    rc = 2
  sys.exit(rc)
