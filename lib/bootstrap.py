"""Pins `import atsim.potentials` to the tree under test.

The repository is an editable install whose *-nspkg.pth pre-creates the `atsim`
namespace with __path__ == ['/repo/atsim'], so PYTHONPATH cannot redirect the import.
We rewrite atsim.__path__ before the first import of atsim.potentials and verify the
result.  Importing this module has that side effect (once).
"""
import os
import sys
import warnings

warnings.filterwarnings("ignore")

VERIF_ROOT = os.path.dirname(os.path.dirname(os.path.abspath(__file__)))
TREE = os.path.abspath(os.environ.get("VERIF_REPO", "/repo"))
DEPS = os.path.join(VERIF_ROOT, ".deps")

sys.dont_write_bytecode = True
for p in (os.path.join(VERIF_ROOT, "lib"), VERIF_ROOT):
  if p not in sys.path:
    sys.path.insert(0, p)
# .deps goes LAST so that it never shadows a package of /venv.
if DEPS not in sys.path:
  sys.path.append(DEPS)


class WrongTree(Exception):
  pass


def _pin():
  import importlib
  if "atsim.potentials" in sys.modules:
    mod = sys.modules["atsim.potentials"]
  else:
    try:
      import atsim
      atsim.__path__[:] = [os.path.join(TREE, "atsim")]
    except Exception:  # namespace module not pre-created: fall back on sys.path
      sys.path.insert(0, TREE)
    mod = importlib.import_module("atsim.potentials")
  f = os.path.abspath(mod.__file__)
  if not f.startswith(TREE + os.sep):
    raise WrongTree("atsim.potentials imported from %s, expected under %s" % (f, TREE))
  return mod


atsim_potentials = _pin()


def child_env(extra=None, hashseed="0"):
  """Environment for child processes (workers, CLI runs)."""
  env = dict(os.environ)
  env["VERIF_REPO"] = TREE
  env["PYTHONDONTWRITEBYTECODE"] = "1"
  env["PYTHONWARNINGS"] = "ignore"
  env["ATSIM_POTENTIALS_VERIF"] = "1"
  env["PIP_NO_INDEX"] = "1"
  if hashseed is not None:
    env["PYTHONHASHSEED"] = str(hashseed)
  pp = [os.path.join(VERIF_ROOT, "lib"), VERIF_ROOT]
  env["PYTHONPATH"] = os.pathsep.join(pp)
  if extra:
    env.update(extra)
  return env


POTABLE_SNIPPET = ("import sys; sys.argv[0]='potable'; import bootstrap; "
                   "from atsim.potentials.tools.potable import main; main()")


def potable_cmd():
  """argv prefix that runs the potable CLI of the tree under test."""
  return [sys.executable, "-c", POTABLE_SNIPPET]
