"""Consumer-side readers, written from the format rules of the consuming codes (LAMMPS
pair_style table / eam/alloy / eam/fs / adp / eam(funcfl), DL_POLY TABLE / TABEAM, GULP
spline) - not from the repository's writers.  Each fails loudly (FormatError) on any
structural surprise and keeps the *text tokens* so the caller can derive the printed
quantum of every number."""
import io
import re


class FormatError(Exception):
  pass


_NUM = re.compile(r"^[+-]?(\d+\.?\d*|\.\d+)([eE][+-]?\d+)?$")


def _isnum(t):
  return bool(_NUM.match(t)) or t.lower() in ("nan", "inf", "-inf")


def _f(t):
  if not _isnum(t):
    raise FormatError("not a number: %r" % t)
  return float(t)


# ------------------------------------------------------------------ LAMMPS pair table

def read_lammps_table(text):
  """-> list of sections {keyword, N, lo, hi, lo_tok, hi_tok, rows:[(i_tok,r_tok,e_tok,f_tok)]}
  following LAMMPS' pair_style table reader: skip blank/comment lines, first non-blank
  line's first word is the keyword, next line holds parameters 'N n [R lo hi]', then
  (after optional blank line) exactly n lines of 'index r energy force'."""
  lines = text.split("\n")
  if lines and lines[-1] == "":
    lines = lines[:-1]
  i = 0
  out = []
  n = len(lines)
  while i < n:
    if lines[i].strip() == "" or lines[i].lstrip().startswith("#"):
      i += 1
      continue
    kw = lines[i].split()
    if len(kw) != 1:
      raise FormatError("line %d: keyword line has %d words: %r" % (i + 1, len(kw), lines[i]))
    keyword = kw[0]
    i += 1
    if i >= n:
      raise FormatError("EOF after keyword %r" % keyword)
    params = lines[i].split()
    if len(params) != 5 or params[0] != "N" or params[2] != "R":
      raise FormatError("line %d: bad parameter line %r" % (i + 1, lines[i]))
    if not re.match(r"^\d+$", params[1]):
      raise FormatError("N not an integer: %r" % params[1])
    N = int(params[1])
    i += 1
    # LAMMPS skips exactly one line after the parameter line
    if i < n and lines[i].strip() != "":
      raise FormatError("line %d: expected blank line after parameters, got %r" % (i + 1, lines[i]))
    i += 1
    rows = []
    for k in range(N):
      if i >= n:
        raise FormatError("section %s: EOF after %d of %d rows" % (keyword, k, N))
      t = lines[i].split()
      if len(t) != 4:
        raise FormatError("line %d: row has %d tokens: %r" % (i + 1, len(t), lines[i]))
      for x in t[1:]:
        _f(x)
      rows.append(tuple(t))
      i += 1
    # what follows must be a blank line / EOF (section separator), not a stray row
    if i < n and lines[i].strip() != "":
      t = lines[i].split()
      if len(t) == 4 and all(_isnum(x) for x in t):
        raise FormatError("section %s: more rows than N=%d" % (keyword, N))
    out.append({"keyword": keyword, "N": N, "lo": _f(params[3]), "hi": _f(params[4]),
                "lo_tok": params[3], "hi_tok": params[4], "rows": rows})
  return out


# ------------------------------------------------------------------ DL_POLY TABLE

def read_dlpoly_table(text):
  """DL_POLY TABLE: record 1 title (a80), record 2 delpot,cutpot,ngrid (2e15.8,i10 here:
  fixed columns 15,15,10), then per potential: a8,a8 header, ngrid/4 records of 4e15.8
  energies, then the same for forces."""
  lines = text.split("\n")
  if lines and lines[-1] == "":
    lines = lines[:-1]
  if len(lines) < 2:
    raise FormatError("fewer than 2 header records")
  title = lines[0]
  if len(title) != 80:
    raise FormatError("title record is %d columns, expected 80" % len(title))
  h = lines[1]
  if len(h) != 40:
    raise FormatError("header record is %d columns, expected 40: %r" % (len(h), h))
  delpot_tok, cutpot_tok, ngrid_tok = h[0:15].strip(), h[15:30].strip(), h[30:40].strip()
  delpot, cutpot = _f(delpot_tok), _f(cutpot_tok)
  if not re.match(r"^\d+$", ngrid_tok):
    raise FormatError("ngrid %r" % ngrid_tok)
  ngrid = int(ngrid_tok)
  if ngrid % 4 != 0:
    raise FormatError("ngrid %d not divisible by 4" % ngrid)
  nrec = ngrid // 4
  i = 2
  blocks = []
  while i < len(lines):
    head = lines[i]
    if len(head) != 16:
      raise FormatError("line %d: block head is %d columns, expected 16 (a8a8): %r" % (i + 1, len(head), head))
    a, b = head[0:8], head[8:16]
    if a.strip() == "" or b.strip() == "" or a != a.rjust(8) or b != b.rjust(8) or " " in a.strip() or " " in b.strip():
      raise FormatError("line %d: bad labels %r %r" % (i + 1, a, b))
    i += 1
    vals = []
    for part in range(2):
      cur = []
      for k in range(nrec):
        if i >= len(lines):
          raise FormatError("block %s-%s: EOF in %s" % (a.strip(), b.strip(), "energies" if part == 0 else "forces"))
        rec = lines[i]
        if len(rec) != 60:
          raise FormatError("line %d: record is %d columns, expected 60: %r" % (i + 1, len(rec), rec))
        for c in range(4):
          fld = rec[15 * c:15 * c + 15]
          tok = fld.strip()
          _f(tok)
          if " " in tok:
            raise FormatError("line %d: field %r" % (i + 1, fld))
          cur.append(tok)
        i += 1
      vals.append(cur)
    blocks.append({"a": a.strip(), "b": b.strip(), "energies": vals[0], "forces": vals[1]})
  return {"delpot": delpot, "cutpot": cutpot, "ngrid": ngrid, "delpot_tok": delpot_tok, "cutpot_tok": cutpot_tok,
          "blocks": blocks}


# ------------------------------------------------------------------ setfl family

class _Tok(object):
  def __init__(self, text, skip_lines):
    lines = text.split("\n")
    self.comments = lines[:skip_lines]
    if len(lines) < skip_lines:
      raise FormatError("fewer than %d comment lines" % skip_lines)
    self.toks = " ".join(lines[skip_lines:]).split()
    self.lines = lines[skip_lines:]
    self.i = 0

  def next(self):
    if self.i >= len(self.toks):
      raise FormatError("unexpected end of file at token %d" % self.i)
    t = self.toks[self.i]
    self.i += 1
    return t

  def num(self):
    t = self.next()
    _f(t)
    return t

  def integer(self):
    t = self.next()
    if not re.match(r"^[+-]?\d+$", t):
      raise FormatError("expected integer, got %r" % t)
    return int(t)

  def left(self):
    return len(self.toks) - self.i


def read_setfl(text, fs=False, adp=False):
  """DYNAMO setfl as LAMMPS reads it (pair_eam_alloy / pair_eam_fs / pair_adp):
  3 comment lines; line 4: ntypes + names; line 5: nrho drho nr dr cutoff; per element:
  'Z mass a0 lattice', nrho F values, then nr rho values (eam/alloy) or ntypes*nr rho
  values (eam/fs: for element i, block j is the density function rho_ij used when an
  atom of type j... see slot rule in density_at()); then for i, j<=i nr values r*phi;
  adp: then u(r) blocks and w(r) blocks in the same i, j<=i order."""
  tk = _Tok(text, 3)
  line4 = tk.lines[0].split() if tk.lines else []
  if not line4 or not re.match(r"^\d+$", line4[0]):
    raise FormatError("line 4 must start with ntypes: %r" % (tk.lines[0] if tk.lines else None))
  ntypes = tk.integer()
  if len(line4) != ntypes + 1:
    raise FormatError("line 4 names %d elements but ntypes=%d" % (len(line4) - 1, ntypes))
  names = [tk.next() for _ in range(ntypes)]
  line5 = tk.lines[1].split() if len(tk.lines) > 1 else []
  if len(line5) != 5:
    raise FormatError("line 5 must hold 5 values: %r" % line5)
  nrho = tk.integer()
  drho = tk.num()
  nr = tk.integer()
  dr = tk.num()
  cutoff = tk.num()
  elements = []
  for e in range(ntypes):
    Z = tk.integer()
    mass = tk.num()
    a0 = tk.num()
    lat = tk.next()
    if _isnum(lat):
      raise FormatError("lattice type looks numeric: %r" % lat)
    F = [tk.num() for _ in range(nrho)]
    if fs:
      rho = [[tk.num() for _ in range(nr)] for _ in range(ntypes)]
    else:
      rho = [tk.num() for _ in range(nr)]
    elements.append({"name": names[e], "Z": Z, "mass": mass, "a0": a0, "lattice": lat, "F": F, "rho": rho})

  def tri():
    d = {}
    for i in range(ntypes):
      for j in range(i + 1):
        d[(i, j)] = [tk.num() for _ in range(nr)]
    return d

  rphi = tri()
  out = {"names": names, "nrho": nrho, "drho": drho, "nr": nr, "dr": dr, "cutoff": cutoff, "elements": elements,
         "rphi": rphi, "comments": tk.comments}
  if adp:
    out["u"] = tri()
    out["w"] = tri()
  if tk.left() != 0:
    raise FormatError("%d tokens left over after the last block (first: %r)" % (tk.left(), tk.toks[tk.i]))
  return out


def setfl_fs_density(parsed, site, neighbour):
  """LAMMPS eam/fs: the density contributed AT a site of element `site` BY a neighbour
  of element `neighbour` is the function stored in the neighbour's element block at the
  slot of the site's element (rhor of 'element j at a site of element i' lives in j's
  block, i-th function)."""
  names = parsed["names"]
  i = names.index(site)
  j = names.index(neighbour)
  return parsed["elements"][j]["rho"][i]


# ------------------------------------------------------------------ DL_POLY TABEAM

def read_tabeam(text):
  """DL_POLY TABEAM: title record, integer number of functions, then keyword blocks:
  'pair A B n start end' | 'embe A n start end' | 'dens A [B] n start end' followed by n
  values, four per record (the last record may be shorter)."""
  lines = text.split("\n")
  if lines and lines[-1] == "":
    lines = lines[:-1]
  if len(lines) < 2:
    raise FormatError("TABEAM too short")
  title = lines[0]
  cnt = lines[1].split()
  if len(cnt) != 1 or not re.match(r"^\d+$", cnt[0]):
    raise FormatError("record 2 must be the integer number of functions: %r" % lines[1])
  declared = int(cnt[0])
  i = 2
  blocks = []
  while i < len(lines):
    h = lines[i].split()
    if not h:
      raise FormatError("line %d: blank line" % (i + 1))
    kw = h[0]
    if kw == "pair":
      if len(h) != 6:
        raise FormatError("line %d: pair header %r" % (i + 1, lines[i]))
      species = (h[1], h[2])
      rest = h[3:]
    elif kw == "embe":
      if len(h) != 5:
        raise FormatError("line %d: embe header %r" % (i + 1, lines[i]))
      species = (h[1],)
      rest = h[2:]
    elif kw == "dens":
      if len(h) == 5:
        species = (h[1],)
        rest = h[2:]
      elif len(h) == 6:
        species = (h[1], h[2])
        rest = h[3:]
      else:
        raise FormatError("line %d: dens header %r" % (i + 1, lines[i]))
    else:
      raise FormatError("line %d: unknown keyword %r" % (i + 1, kw))
    if not re.match(r"^\d+$", rest[0]):
      raise FormatError("line %d: n %r" % (i + 1, rest[0]))
    n = int(rest[0])
    _f(rest[1])
    _f(rest[2])
    i += 1
    vals = []
    nrec = (n + 3) // 4
    for k in range(nrec):
      if i >= len(lines):
        raise FormatError("block %s %s: EOF after %d values of %d" % (kw, species, len(vals), n))
      t = lines[i].split()
      want = 4 if k < nrec - 1 else n - 4 * (nrec - 1)
      if len(t) != want:
        raise FormatError("line %d: record has %d values, expected %d: %r" % (i + 1, len(t), want, lines[i]))
      for x in t:
        _f(x)
      vals.extend(t)
      i += 1
    blocks.append({"kw": kw, "species": species, "n": n, "start_tok": rest[1], "end_tok": rest[2], "values": vals})
  return {"title": title, "declared": declared, "blocks": blocks}


# ------------------------------------------------------------------ GULP

def read_gulp(text):
  """Series of 'spline cubic' options: option line, 'A B cutoff' line, then rows
  'energy separation' until the next option line / EOF."""
  lines = text.split("\n")
  if lines and lines[-1] == "":
    lines = lines[:-1]
  i = 0
  out = []
  while i < len(lines):
    if lines[i].split() != ["spline", "cubic"]:
      raise FormatError("line %d: expected 'spline cubic', got %r" % (i + 1, lines[i]))
    i += 1
    if i >= len(lines):
      raise FormatError("EOF after 'spline cubic'")
    h = lines[i].split()
    if len(h) != 3:
      raise FormatError("line %d: head %r" % (i + 1, lines[i]))
    _f(h[2])
    i += 1
    rows = []
    while i < len(lines) and lines[i].split()[:1] != ["spline"]:
      t = lines[i].split()
      if len(t) != 2:
        raise FormatError("line %d: row %r" % (i + 1, lines[i]))
      _f(t[0])
      _f(t[1])
      rows.append((t[0], t[1]))
      i += 1
    out.append({"a": h[0], "b": h[1], "cutoff_tok": h[2], "rows": rows})
  return out


# ------------------------------------------------------------------ funcfl

def read_funcfl(text):
  """DYNAMO funcfl as LAMMPS pair_style eam reads it: line 1 comment; line 2
  'Z mass a0 lattice'; line 3 'nrho drho nr dr cutoff'; then nrho F, nr Z(r), nr rho(r)
  as a free token stream."""
  lines = text.split("\n")
  if len(lines) < 3:
    raise FormatError("funcfl too short")
  l2 = lines[1].split()
  if len(l2) != 4:
    raise FormatError("line 2: %r" % lines[1])
  l3 = lines[2].split()
  if len(l3) != 5:
    raise FormatError("line 3: %r" % lines[2])
  nrho, nr = int(l3[0]), int(l3[2])
  toks = " ".join(lines[3:]).split()
  if len(toks) != nrho + 2 * nr:
    raise FormatError("expected %d values, found %d" % (nrho + 2 * nr, len(toks)))
  for t in toks:
    _f(t)
  body_lines = [l for l in lines[3:] if l.strip()]
  return {"title": lines[0], "Z": int(l2[0]), "mass_tok": l2[1], "a0_tok": l2[2], "lattice": l2[3],
          "nrho": nrho, "drho_tok": l3[1], "nr": nr, "dr_tok": l3[3], "cutoff_tok": l3[4],
          "F": toks[:nrho], "Zr": toks[nrho:nrho + nr], "rho": toks[nrho + nr:],
          "per_line": [len(l.split()) for l in body_lines]}


# ------------------------------------------------------------------ xlsx

def read_xlsx(data):
  from openpyxl import load_workbook
  wb = load_workbook(io.BytesIO(data), read_only=False, data_only=True)
  out = {}
  for ws in wb.worksheets:
    rows = [list(r) for r in ws.iter_rows(values_only=True)]
    out[ws.title] = rows
  return {"sheets": out, "order": [ws.title for ws in wb.worksheets]}
