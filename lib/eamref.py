"""Reference view of an EAM / FS / ADP model spec: which function each slot of an output
format must hold (looked up irrespective of declaration order, zero when undeclared)."""
import mpmath as mp

import oracle
import refmodel as R
import spec


class EamRef(object):
  def __init__(self, model, potable):
    self.model = model
    self.potable = potable
    self.M = R.Model(model.get("forms"), model.get("tables"))
    self.order = spec.eam_element_order(model)
    self._cache = {}

  def _or(self, node, key):
    if key not in self._cache:
      n2 = spec.wrap_potable(node) if (self.potable and node is not spec.ZERO) else node
      self._cache[key] = oracle.ValueOracle(self.M, n2, analytic=spec.all_analytic(node))
    return self._cache[key]

  def embed(self, s):
    for a, n in self.model["embed"]:
      if a == s:
        return self._or(n, ("embed", s))
    return self._or(spec.ZERO, ("zero",))

  def density(self, s):
    for ent in self.model["density"]:
      if len(ent) == 2 and ent[0] == s:
        return self._or(ent[1], ("dens", s))
    return self._or(spec.ZERO, ("zero",))

  def density_fs(self, site, neighbour):
    """density at a `site` atom from a `neighbour` atom = entry 'site->neighbour'."""
    for ent in self.model["density"]:
      if len(ent) == 3 and ent[0] == site and ent[1] == neighbour:
        return self._or(ent[2], ("dens", site, neighbour))
    return self._or(spec.ZERO, ("zero",))

  def pairlike(self, key, a, b):
    for x, y, n in self.model.get(key) or []:
      if (x, y) == (a, b) or (x, y) == (b, a):
        return self._or(n, (key, x, y))
    return self._or(spec.ZERO, ("zero",))

  def declared_pair(self, key, a, b):
    return any((x, y) in ((a, b), (b, a)) for x, y, _ in self.model.get(key) or [])

  def all_functions(self):
    """[(oracle, step, count)] of every function the writers evaluate."""
    nr, dr, nrho, drho = self.grids()
    out = []
    for s in self.order:
      out.append((self.embed(s), drho, nrho))
      if self.model["type"] == "fs":
        for t in self.order:
          out.append((self.density_fs(s, t), dr, nr))
      else:
        out.append((self.density(s), dr, nr))
    for key in ("pair", "dipole", "quadrupole"):
      for a, b, n in self.model.get(key) or []:
        out.append((self.pairlike(key, a, b), dr, nr))
    return out

  def grids(self):
    t = self.model["tab"]
    nr, nrho = int(t["nr"]), int(t["nrho"])
    dr = oracle.grid(float(t["cutoff"]), nr - 1)
    drho = oracle.grid(float(t["cutoff_rho"]), nrho - 1)
    return nr, dr, nrho, drho

  def in_domain(self, rows_r, rows_rho, limit="1e150"):
    """Pre-screen: every function finite on its sampled grid points."""
    lim = mp.mpf(limit)
    try:
      for s in self.order:
        for x in rows_rho:
          if abs(self.embed(s).value(x)) > lim:
            return False
        for x in rows_r:
          if self.model["type"] == "fs":
            for t in self.order:
              if abs(self.density_fs(s, t).value(x)) > lim:
                return False
          elif abs(self.density(s).value(x)) > lim:
            return False
      for key in ("pair", "dipole", "quadrupole"):
        for a, b, n in self.model.get(key) or []:
          for x in rows_r:
            if abs(self.pairlike(key, a, b).value(x)) > lim:
              return False
    except (R.RefDomainError, ZeroDivisionError, ValueError, OverflowError):
      return False
    return True


def overflow_is_out_of_domain(oracles_steps_counts, limit="1e280"):
  """After the code under test raised OverflowError: True when some function's magnitude
  (sum of |terms| of the reference, over ALL grid points) exceeds what doubles can hold - the
  generated model then lies outside the forms' usable domain and the case is not judged."""
  lim = mp.mpf(limit)
  for orc, step, n in oracles_steps_counts:
    for i in range(n):
      x = R.F(step * i)
      try:
        if orc.m.max_submag(orc.node, x) > lim:
          return True
      except (R.RefDomainError, ZeroDivisionError, ValueError, OverflowError):
        return True
  return False


def check_series(ctx, kind, toks, orc, step, idxs, where, scale_r=False, drift=True, rel=1e-9, fmt=None, strict=False):
  """tokens[i] == f(i*step) (optionally times r) for the sampled indices."""
  ok_all = True
  for i in idxs:
    x = R.F(step * i)
    ab = 0
    if drift and i > 0:
      try:
        ab = abs(orc.deriv(x)) * (i + 2) * mp.mpf("2.3e-16") * x
      except Exception:
        ab = 0
    if scale_r:
      ab = ab * x
    ok = oracle.check_value(ctx, kind, toks[i], orc, x, factor=(x if scale_r else 1), rel=rel, abs_=ab,
                            where="%s i=%d x=%s" % (where, i, mp.nstr(x, 10)), fmt=fmt, strict=strict)
    ok_all = ok_all and ok
  return ok_all
