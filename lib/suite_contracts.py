"""Runs the repository's own test suite with the runtime contracts of one check armed
(DESIGN.md section 7.2).  A contract that fires there is either too strict or a defect the
tests do not assert; a contract that was never evaluated makes the sub-result inconclusive."""
import json
import os
import subprocess
import sys
import tempfile
import xml.etree.ElementTree as ET

import bootstrap


def run_suite(ctx, check_name, required_counters):
  tmp = tempfile.mkdtemp(prefix="suite-", dir=os.environ.get("VERIF_TMP"))
  out = os.path.join(tmp, "plugin.json")
  junit = os.path.join(tmp, "junit.xml")
  env = bootstrap.child_env({"VERIF_PLUGIN_CHECKS": check_name, "VERIF_PLUGIN_OUT": out})
  env["PYTHONPATH"] = env["PYTHONPATH"] + os.pathsep + os.path.join(bootstrap.VERIF_ROOT, ".deps")
  env.pop("ATSIM_POTENTIALS_VERIF", None)
  cmd = [sys.executable, "-m", "pytest", "-q", "-p", "no:cacheprovider", "-p", "verif_pytest_plugin", "--timeout=900",
         "--continue-on-collection-errors", "--junitxml=" + junit, "/repo/tests"]
  r = subprocess.run(cmd, env=env, cwd="/repo", capture_output=True, text=True, timeout=1200)
  ctx.count("suite_runs")
  if not os.path.exists(out) or not os.path.exists(junit):
    ctx.violation("HARNESS_ERROR", "suite run produced no report: %s" % (r.stdout[-300:] + r.stderr[-300:]), what="suite")
    return
  rep = json.load(open(out))
  if not rep["tree"].startswith(bootstrap.TREE + os.sep):
    ctx.violation("HARNESS_ERROR", "suite ran against %s" % rep["tree"], what="suite")
    return
  passed = set()
  for tc in ET.parse(junit).iter("testcase"):
    if not any(ch.tag in ("failure", "error", "skipped") for ch in tc):
      passed.add(tc.get("classname") + "::" + tc.get("name"))
  base = json.load(open("/root/.vp/BASELINE.json"))
  missing = sorted(set(base["stable_pass"]) - passed)
  ctx.count("suite_tests_passed", len(passed))
  if missing:
    ctx.violation("suite_test_failed_with_contracts", "%d baseline tests do not pass with the contracts armed: %s" % (len(missing), missing[:3]), what="suite_test_failed")
  info = rep["checks"].get(check_name, {"counts": {}, "failures": []})
  for name, msg in info["failures"][:3]:
    ctx.violation("contract_fired_in_suite", "%s: %s" % (name, msg), what="contract_fired_in_suite", contract=name)
  for key in required_counters:
    n = info["counts"].get(key, 0)
    ctx.count("suite_contract_evaluations_" + key, n)
    if n == 0:
      ctx.violation("HARNESS_ERROR", "contract %s was never evaluated during the suite run" % key, what="suite")
  ctx.nontrivial(True)
