"""spec -> potable text (with formatting variants), spec -> Python-API objects,
spec -> plain Python callables.  Imports of the repository happen lazily inside the
API functions so that text emission can be used without it."""
import math
import random

from spec import fnum


# ------------------------------------------------------------------ formula text

def expr_text(e):
  op = e[0]
  if op == "num":
    v = e[1]
    t = fnum(v)
    return "(%s)" % t if t.startswith("-") else t
  if op == "var":
    return e[1]
  if op == "neg":
    return "(0 - %s)" % expr_text(e[1])
  if op in "+-*/^":
    return "(%s %s %s)" % (expr_text(e[1]), op, expr_text(e[2]))
  if op == "call":
    return "%s(%s)" % (e[1], ", ".join(expr_text(a) for a in e[2]))
  if op == "if":
    c = e[1]
    return "if(%s %s %s, %s, %s)" % (expr_text(c[1]), c[0], expr_text(c[2]), expr_text(e[2]), expr_text(e[3]))
  if op == "assign_then":
    # exprtk statement list: 'name := expr; body' (the value of the formula is that of its last statement)
    return "%s := %s; %s" % (e[1], expr_text(e[2]), expr_text(e[3]))
  raise KeyError(op)


_PYF = {"exp": math.exp, "sqrt": math.sqrt, "sin": math.sin, "cos": math.cos, "abs": abs, "log": math.log,
        "tanh": math.tanh, "erfc": math.erfc, "erf": math.erf, "cosh": math.cosh, "sinh": math.sinh}


def expr_pyfunc(e):
  """AST over variable r -> Python closure in double arithmetic."""
  def ev(e, r):
    op = e[0]
    if op == "num":
      return float(e[1])
    if op == "var":
      return r
    if op == "neg":
      return -ev(e[1], r)
    if op == "+":
      return ev(e[1], r) + ev(e[2], r)
    if op == "-":
      return ev(e[1], r) - ev(e[2], r)
    if op == "*":
      return ev(e[1], r) * ev(e[2], r)
    if op == "/":
      return ev(e[1], r) / ev(e[2], r)
    if op == "^":
      return ev(e[1], r) ** ev(e[2], r)
    if op == "call":
      return _PYF[e[1]](*[ev(a, r) for a in e[2]])
    if op == "if":
      c = e[1]
      x, y = ev(c[1], r), ev(c[2], r)
      t = {"<": x < y, ">": x > y, "<=": x <= y, ">=": x >= y}[c[0]]
      return ev(e[2] if t else e[3], r)
    raise KeyError(op)
  return lambda r: ev(e, r)


# ------------------------------------------------------------------ definition text

class Style(object):
  """Formatting choices that must not change the meaning of a file."""

  def __init__(self, rng=None, plain=False):
    self.rng = rng or random.Random(0)
    self.plain = plain

  def pick(self, opts):
    return opts[0] if self.plain else self.rng.choice(opts)

  def sep(self):
    return self.pick([" : ", " = ", ": ", "=", " :", " =   ", ":"])

  def sp(self):
    return self.pick([" ", " ", "  ", " \t"])

  def comma(self):
    return self.pick([", ", ",", " , ", ",\n      "])

  def num(self, x):
    """Numeral for x; non-plain styles pick among spellings that denote exactly the same double."""
    t = fnum(x)
    if self.plain or isinstance(x, (int, str)):
      return t
    c = self.rng.random()
    if c < 0.6:
      return t
    if c < 0.7 and x > 0:
      return "+" + t
    if c < 0.85:
      e = "%.17e" % x
      return e if float(e) == x else t
    if c < 0.93 and "e" not in t and "." in t:
      return t + "0"
    if "e" not in t and "." in t and t.startswith("0."):
      return t[1:]            # .5 for 0.5
    return t

  def marker(self, m, s):
    return self.pick(["%s%s", "%s %s"]) % (m, self.num(s))


def node_text(node, st, top=True):
  """Text of one definition.  `top` positions may omit a leading '>0'."""
  k = node["k"]
  sp = st.sp
  if k == "form":
    return " ".join(["as." + node["name"]] + [st.num(v) for v in node["p"]]) if st.plain else sp().join(["as." + node["name"]] + [st.num(v) for v in node["p"]])
  if k in ("sum", "product", "pow"):
    return "%s(%s)" % (k, st.comma().join(node_text(a, st) for a in node["a"]))
  if k == "trans":
    return "trans(%s%sas.constant %s)" % (node_text(node["f"], st), st.comma(), st.num(node["x"]))
  if k == "ranges":
    out = []
    for i, (m, s, sub) in enumerate(node["parts"]):
      body = node_text(sub, st, top=False)
      if i == 0 and m == ">" and float(s) == 0.0 and st.pick([True, False]):
        out.append(body)
      else:
        out.append(st.marker(m, s) + sp() + body)
    return sp().join(out)
  if k == "custom":
    return sp().join([node["name"]] + [st.num(v) for v in node["args"]])
  if k == "table":
    return node["name"]
  if k == "buck4":
    return sp().join(["as.buck4"] + [st.num(v) for v in node["p"]])
  if k == "spline":
    s0 = node.get("s0", [">", 0.0])
    start = node_text(node["start"], st, top=False)
    if s0[0] == "-inf":
      s0 = [">", 0.0]
    if s0[0] == ">" and float(s0[1]) == 0.0 and st.pick([True, False]):
      head = start
    else:
      head = st.marker(s0[0], s0[1]) + sp() + start
    mid = node["kind"] + ((" " + st.num(node["rmin"])) if node["kind"] == "buck4_spline" else "")
    return "spline(%s%s%s %s%s%s%s%s)" % (head, sp(), st.marker(node["md"], node["rd"]), mid, sp(),
                                         st.marker(node["ma"], node["ra"]), sp(), node_text(node["end"], st, top=False))
  raise KeyError(k)


def entry(key, value, st, indent_cont=True):
  """One INI entry; multi-line values get indented continuation lines."""
  lines = value.split("\n")
  out = key + st.sep() + lines[0].strip()
  for l in lines[1:]:
    out += "\n    " + l.strip()
  return out


def bracket_styles(text, st):
  """exprtk groups with (), [] and {} alike: rewrite some grouping pairs (never the brackets of a function call)."""
  out = list(text)
  stack = []
  for i, ch in enumerate(text):
    if ch == "(":
      prev = text[i - 1] if i else " "
      call = prev.isalnum() or prev in "_."
      stack.append((i, call))
    elif ch == ")" and stack:
      j, call = stack.pop()
      if not call and st.rng.random() < 0.3:
        o, c = st.rng.choice(["[]", "{}"])
        out[j], out[i] = o, c
  return "".join(out)


def formula_layout(text, st):
  if st.rng.random() < 0.35:
    text = bracket_styles(text, st)
  return _formula_layout(text, st)


def _formula_layout(text, st):
  """Layouts of one formula that mean the same to the expression parser: continued over several lines (a newline is
  white space), with end-of-line comments ('// ...', '# ...') and inline '/* ... */' comments as exprtk allows."""
  c = st.rng.random()
  if c < 0.65:
    return text
  parts = text.split(" + ") if " + " in text else text.split(" * ")
  sepr = " + " if " + " in text else " * "
  if len(parts) < 2:
    return text
  out = ""
  for i, p_ in enumerate(parts):
    last = i == len(parts) - 1
    out += p_
    if not last:
      out += sepr.rstrip()
      r = st.rng.random()
      if r < 0.5:
        out += st.rng.choice(["", "  // first part", " # note + 1", " /* inline */", "  // - 5*r"]) + "\n"
      else:
        out += " " + st.rng.choice(["", "/* c */ "])
  if st.rng.random() < 0.3:
    out += st.rng.choice(["  // trailing comment", " # trailing * 0"])
  return out


def decorate(sec_text, st):
  """Things a hand-edited file contains and that mean nothing: full-line comments ('#', ';') and blank lines between
  the entries of a section, trailing blanks, an indented section-less comment.  Continuation lines stay attached to
  their entry (a comment or blank line is only put in front of a line that starts an entry)."""
  if st.rng.random() < 0.6:
    return sec_text
  out = []
  for i, line in enumerate(sec_text.split("\n")):
    starts_entry = i > 0 and line[:1] not in (" ", "\t", "")
    if starts_entry and st.rng.random() < 0.3:
      out.append(st.rng.choice(["# a comment", "; another comment", "", "#", "# key : as.constant 99.0", "; [Pair]"]))
    if st.rng.random() < 0.15:
      line = line + st.rng.choice([" ", "  ", "\t"])
    out.append(line)
  return "\n".join(out)


def model_text(model, st=None, extra_sections=None):
  """Full potable file for a model spec (see checks for the model layout)."""
  st = st or Style(plain=True)
  secs = []
  tab = model.get("tab", {})
  t = ["[Tabulation]"]
  items = [("target", model["target"])] if model.get("target") is not None else []
  for k in ("nr", "dr", "cutoff", "nrho", "drho", "cutoff_rho"):
    if k in tab and tab[k] is not None:
      items.append((k, fnum(tab[k])))
  if not st.plain:
    st.rng.shuffle(items)
  for k, v in items:
    t.append(entry(k, v, st))
  secs.append("\n".join(t))

  def keyfmt(a, b, arrow):
    # white space around the '-' / '->' of a key means nothing; form feed and vertical tab are white space, too
    return st.pick(["%s%s%s", "%s %s %s", "%s%s %s", "%s%s%s", "%s %s %s", "%s\x0c%s\x0c%s", "%s\x0b%s%s", "%s%s \x0c%s"]) % (a, arrow, b)

  if model.get("pair") is not None:
    s = ["[Pair]"]
    for a, b, node in model["pair"]:
      s.append(entry(keyfmt(a, b, "-"), node_text(node, st), st))
    secs.append("\n".join(s))
  for secname, key in (("EAM-ADP-Dipole", "dipole"), ("EAM-ADP-Quadrupole", "quadrupole")):
    if model.get(key) is not None:
      s = ["[%s]" % secname]
      for a, b, node in model[key]:
        s.append(entry(keyfmt(a, b, "-"), node_text(node, st), st))
      secs.append("\n".join(s))
  if model.get("embed") is not None:
    s = ["[EAM-Embed]"]
    for a, node in model["embed"]:
      s.append(entry(a, node_text(node, st), st))
    secs.append("\n".join(s))
  if model.get("density") is not None:
    s = ["[EAM-Density]"]
    for ent in model["density"]:
      if len(ent) == 2:
        s.append(entry(ent[0], node_text(ent[1], st), st))
      else:
        s.append(entry(keyfmt(ent[0], ent[1], "->"), node_text(ent[2], st), st))
    secs.append("\n".join(s))
  if model.get("forms"):
    s = ["[Potential-Form]"]
    for f in model["forms"]:
      sig = "%s(%s)" % (f["name"], st.pick([", ", ",", " , "]).join(f["params"]))
      s.append(entry(sig, expr_text(f["expr"]), st).replace(" : ", " = ", 1) if st.plain else entry(sig, formula_layout(expr_text(f["expr"]), st), st))
    secs.append("\n".join(s))
  for tbl in model.get("tables") or []:
    s = ["[Table-Form:%s]" % tbl["name"]]
    if tbl.get("interpolation"):
      s.append(entry("interpolation", tbl["interpolation"], st))
    if tbl.get("as", "xy") == "xy":
      rows = ["%s %s" % (fnum(x), fnum(y)) for x, y in zip(tbl["x"], tbl["y"])]
      s.append(entry("xy", "\n".join(rows), st))
    else:
      s.append(entry("x", " ".join(fnum(x) for x in tbl["x"]), st))
      s.append(entry("y", " ".join(fnum(y) for y in tbl["y"]), st))
    secs.append("\n".join(s))
  if model.get("species"):
    s = ["[Species]"]
    lines = []
    for sp_, props in model["species"].items():
      for pk, pv in props.items():
        lines.append(entry("%s.%s" % (sp_, pk), fnum(pv) if not isinstance(pv, str) else pv, st))
    if not st.plain:
      # the order of [Species] entries means nothing: property by property, species by species, or anyhow
      c_ = st.rng.random()
      if c_ < 0.35:
        st.rng.shuffle(lines)
      elif c_ < 0.6:
        lines.sort(key=lambda l: l.split(".", 1)[1].split()[0] if "." in l else l)
    secs.append("\n".join(s + lines))
  for es in extra_sections or []:
    secs.append(es)
  if not st.plain:
    secs = [decorate(sec_, st) for sec_ in secs]
    head, rest = secs[:1], secs[1:]
    st.rng.shuffle(rest)
    if st.rng.random() < 0.5:
      secs = head + rest
    else:
      secs = rest + head
    if st.rng.random() < 0.5:
      secs = ["# comment line\n" + secs[0]] + secs[1:]
  return "\n\n".join(secs) + "\n"


# ------------------------------------------------------------------ API objects

def api_callable(node, tables=None, leafwrap=None):
  """Compose the node through the Python API (no potable involved).
  leafwrap(callable, node) may wrap every leaf (form, table, buck4, py) - used by spies."""
  import atsim.potentials as ap
  from atsim.potentials import potentialforms as pf
  k = node["k"]
  lw = (lambda f: leafwrap(f, node)) if leafwrap else (lambda f: f)
  rec = lambda n: api_callable(n, tables, leafwrap)
  if k == "form":
    return lw(getattr(pf, node["name"])(*node["p"]))
  if k in ("sum", "product", "pow"):
    fn = {"sum": ap.plus, "product": ap.product, "pow": ap.pow}[k]
    cs = [rec(a) for a in node["a"]]
    out = cs[0]
    for c in cs[1:]:
      out = fn(out, c)
    return out
  if k == "ranges":
    defs = [ap.Multi_Range_Defn(m, float(s), rec(sub)) for m, s, sub in node["parts"]]
    return ap.create_Multi_Range_Potential_Form(*defs)
  if k == "spline":
    from atsim.potentials.spline import SplinePotential, Buck4_SplinePotential
    start = rec(node["start"])
    end = rec(node["end"])
    s0 = node.get("s0", ["-inf"])
    if s0[0] != "-inf":
      # potable: the start potential of spline() acts from its own range start only
      start = ap.create_Multi_Range_Potential_Form(ap.Multi_Range_Defn(s0[0], float(s0[1]), start))
    if node["kind"] == "exp_spline":
      return SplinePotential(start, end, node["rd"], node["ra"])
    return Buck4_SplinePotential(start, end, node["rd"], node["ra"], node["rmin"])
  if k == "buck4":
    return lw(pf.buck4(*node["p"]))
  if k == "table":
    from atsim.potentials.tableforms import Cubic_Spline_Table_Form
    t = [t for t in tables if t["name"] == node["name"]][0]
    return lw(Cubic_Spline_Table_Form(list(t["x"]), list(t["y"])))
  if k == "py":
    return lw(py_callable(node))
  if k == "trans":
    inner = rec(node["f"])
    x = node["x"]
    f = lambda r: inner(r + x)
    if hasattr(inner, "deriv"):
      f.deriv = lambda r: inner.deriv(r + x)
    if hasattr(inner, "deriv2"):
      f.deriv2 = lambda r: inner.deriv2(r + x)
    return f
  raise KeyError(k)


class _PyCallable(object):
  """Arbitrary user callable; .deriv/.deriv2 exist only when given."""

  def __init__(self, f):
    self._f = f

  def __call__(self, r):
    return self._f(r)


def py_callable(node):
  f = expr_pyfunc(node["expr"])
  if node.get("d1") is None and node.get("d2") is None:
    return f if node.get("plain_function", True) else _PyCallable(f)
  obj = _PyCallable(f)
  if node.get("d1") is not None:
    obj.deriv = expr_pyfunc(node["d1"])
  if node.get("d2") is not None:
    obj.deriv2 = expr_pyfunc(node["d2"])
  return obj


# ------------------------------------------------------------------ structured INI view

def model_items(model):
  """Ordered [(section, [(key, value), ...])] of the plain-style file of a model."""
  st = Style(plain=True)
  secs = []
  tab = model.get("tab", {})
  items = [("target", model["target"])] if model.get("target") is not None else []
  for k in ("nr", "dr", "cutoff", "nrho", "drho", "cutoff_rho"):
    if k in tab and tab[k] is not None:
      items.append((k, fnum(tab[k])))
  secs.append(("Tabulation", items))
  if model.get("pair") is not None:
    secs.append(("Pair", [("%s-%s" % (a, b), node_text(n, st)) for a, b, n in model["pair"]]))
  for secname, key in (("EAM-ADP-Dipole", "dipole"), ("EAM-ADP-Quadrupole", "quadrupole")):
    if model.get(key) is not None:
      secs.append((secname, [("%s-%s" % (a, b), node_text(n, st)) for a, b, n in model[key]]))
  if model.get("embed") is not None:
    secs.append(("EAM-Embed", [(a, node_text(n, st)) for a, n in model["embed"]]))
  if model.get("density") is not None:
    its = []
    for ent in model["density"]:
      its.append((ent[0], node_text(ent[1], st)) if len(ent) == 2 else ("%s->%s" % (ent[0], ent[1]), node_text(ent[2], st)))
    secs.append(("EAM-Density", its))
  if model.get("forms"):
    secs.append(("Potential-Form", [("%s(%s)" % (f["name"], ",".join(f["params"])), expr_text(f["expr"])) for f in model["forms"]]))
  for tbl in model.get("tables") or []:
    its = []
    if tbl.get("as", "xy") == "xy":
      its.append(("xy", " ".join("%s %s" % (fnum(x), fnum(y)) for x, y in zip(tbl["x"], tbl["y"]))))
    else:
      its.append(("x", " ".join(fnum(x) for x in tbl["x"])))
      its.append(("y", " ".join(fnum(y) for y in tbl["y"])))
    secs.append(("Table-Form:%s" % tbl["name"], its))
  if model.get("species"):
    its = []
    for sp_, props in model["species"].items():
      for pk, pv in props.items():
        its.append(("%s.%s" % (sp_, pk), fnum(pv) if not isinstance(pv, str) else pv))
    secs.append(("Species", its))
  return secs


def items_text(secs):
  out = []
  for name, items in secs:
    lines = ["[%s]" % name]
    for k, v in items:
      lines.append(v if k is None else "%s : %s" % (k, v))      # k None: a raw line (comment)
    out.append("\n".join(lines))
  return "\n\n".join(out) + "\n"
