#!/bin/sh
# Offline install of the harness-only dependencies (icontract, mpmath) into the
# git-ignored /verif/.deps, beside (not inside) the repository's own /venv.
set -e
cd "$(dirname "$0")"
if [ ! -f .deps/.ok ]; then
  rm -rf .deps
  PIP_NO_INDEX=1 /venv/bin/python -m pip install -q --no-index --find-links /opt/veriftools/wheels \
     --target .deps icontract mpmath jsonschema >/dev/null 2>&1 || {
       echo "setup: pip install failed" >&2; exit 3; }
  touch .deps/.ok
fi
mkdir -p evidence replays
echo "setup ok"
